"""Independent parser for .eh_frame / .eh_frame_hdr (LSB "Exception Frames", DWARF CFI pointer
encodings).  Used by the C10 oracle; no dependency on wild."""
import struct

DW_EH_PE_absptr, DW_EH_PE_uleb128, DW_EH_PE_udata2, DW_EH_PE_udata4, DW_EH_PE_udata8 = 0, 1, 2, 3, 4
DW_EH_PE_sleb128, DW_EH_PE_sdata2, DW_EH_PE_sdata4, DW_EH_PE_sdata8 = 9, 0xa, 0xb, 0xc
DW_EH_PE_pcrel, DW_EH_PE_textrel, DW_EH_PE_datarel, DW_EH_PE_funcrel, DW_EH_PE_aligned = 0x10, 0x20, 0x30, 0x40, 0x50
DW_EH_PE_indirect, DW_EH_PE_omit = 0x80, 0xff


class EhError(Exception):
    def __init__(self, kind, msg):
        super().__init__(f"{kind}: {msg}")
        self.kind = kind
        self.msg = msg


def uleb(data, off):
    v = 0
    shift = 0
    while True:
        if off >= len(data):
            raise EhError("truncated", "ULEB128 runs past the end")
        b = data[off]
        off += 1
        v |= (b & 0x7f) << shift
        shift += 7
        if not b & 0x80:
            return v, off


def sleb(data, off):
    v = 0
    shift = 0
    while True:
        if off >= len(data):
            raise EhError("truncated", "SLEB128 runs past the end")
        b = data[off]
        off += 1
        v |= (b & 0x7f) << shift
        shift += 7
        if not b & 0x80:
            if b & 0x40:
                v -= 1 << shift
            return v, off


def read_encoded(data, off, enc, field_addr, datarel_base=None, apply=True):
    """Decodes one pointer of encoding `enc` located at data[off:] whose own address is field_addr.
    Returns (value, new offset). `apply=False` skips pcrel/datarel application (FDE address range).
    DW_EH_PE_indirect is reported through the returned value being the address of the slot (callers
    that care check `enc & 0x80`)."""
    if enc == DW_EH_PE_omit:
        return None, off
    fmt = enc & 0x0f
    try:
        if fmt == DW_EH_PE_absptr:
            v, n = struct.unpack_from("<Q", data, off)[0], 8
        elif fmt == DW_EH_PE_udata2:
            v, n = struct.unpack_from("<H", data, off)[0], 2
        elif fmt == DW_EH_PE_udata4:
            v, n = struct.unpack_from("<I", data, off)[0], 4
        elif fmt == DW_EH_PE_udata8:
            v, n = struct.unpack_from("<Q", data, off)[0], 8
        elif fmt == DW_EH_PE_sdata2:
            v, n = struct.unpack_from("<h", data, off)[0], 2
        elif fmt == DW_EH_PE_sdata4:
            v, n = struct.unpack_from("<i", data, off)[0], 4
        elif fmt == DW_EH_PE_sdata8:
            v, n = struct.unpack_from("<q", data, off)[0], 8
        elif fmt == DW_EH_PE_uleb128:
            v, o2 = uleb(data, off)
            n = o2 - off
        elif fmt == DW_EH_PE_sleb128:
            v, o2 = sleb(data, off)
            n = o2 - off
        else:
            raise EhError("bad-encoding", f"pointer format {fmt:#x}")
    except struct.error:
        raise EhError("truncated", "encoded pointer runs past the end")
    if apply:
        app = enc & 0x70
        if app == DW_EH_PE_pcrel:
            v += field_addr
        elif app == DW_EH_PE_datarel:
            if datarel_base is None:
                raise EhError("bad-encoding", "datarel without a base")
            v += datarel_base
        elif app not in (0,):
            raise EhError("bad-encoding", f"pointer application {app:#x}")
        v &= (1 << 64) - 1
    return v, off + n


class Cie:
    def __init__(self):
        self.offset = 0          # offset of the record in the section
        self.addr = 0
        self.length = 0          # total record size including the length field
        self.version = 0
        self.aug = ""
        self.code_align = 0
        self.data_align = 0
        self.ra_reg = 0
        self.fde_enc = DW_EH_PE_absptr
        self.lsda_enc = DW_EH_PE_omit
        self.pers_enc = None
        self.personality = None
        self.signal = False
        self.raw = b""

    def key(self):
        """Content identity (CIEs identical up to position-dependent personality bytes)."""
        return (self.version, self.aug, self.code_align, self.data_align, self.ra_reg, self.fde_enc,
                self.lsda_enc, self.pers_enc, self.personality, self.instructions)


class Fde:
    def __init__(self):
        self.offset = 0
        self.addr = 0
        self.length = 0
        self.cie = None
        self.pc_begin = 0
        self.pc_range = 0
        self.lsda = None


def parse_eh_frame(data, base_addr):
    """Returns (cies, fdes, terminator_offsets). Raises EhError on malformed input."""
    cies = {}
    fdes = []
    terms = []
    off = 0
    n = len(data)
    while off < n:
        if off + 4 > n:
            raise EhError("truncated", f"{n - off} stray bytes at the end of .eh_frame")
        (length,) = struct.unpack_from("<I", data, off)
        if length == 0:
            terms.append(off)
            off += 4
            continue
        hdr = 4
        if length == 0xffffffff:
            if off + 12 > n:
                raise EhError("truncated", "extended length runs past the end")
            (length,) = struct.unpack_from("<Q", data, off + 4)
            hdr = 12
        end = off + hdr + length
        if end > n or length < 4:
            raise EhError("bad-length", f"record at {off:#x} has length {length:#x}, section size {n:#x}")
        id_off = off + hdr
        (cid,) = struct.unpack_from("<I", data, id_off)
        body = id_off + 4
        if cid == 0:
            c = Cie()
            c.offset, c.addr, c.length = off, base_addr + off, end - off
            c.raw = data[off:end]
            c.version = data[body]
            if c.version not in (1, 3):
                raise EhError("cie-version", f"CIE at {off:#x} has version {c.version}")
            p = body + 1
            z = data.find(b"\0", p, end)
            if z < 0:
                raise EhError("truncated", "unterminated augmentation string")
            c.aug = data[p:z].decode("latin-1")
            p = z + 1
            if c.aug.startswith("eh"):
                p += 8
            c.code_align, p = uleb(data, p)
            c.data_align, p = sleb(data, p)
            if c.version == 1:
                c.ra_reg = data[p]
                p += 1
            else:
                c.ra_reg, p = uleb(data, p)
            if c.aug.startswith("z"):
                auglen, p = uleb(data, p)
                aug_end = p + auglen
                for ch in c.aug[1:]:
                    if ch == "R":
                        c.fde_enc = data[p]
                        p += 1
                    elif ch == "P":
                        c.pers_enc = data[p]
                        p += 1
                        c.personality, p = read_encoded(data, p, c.pers_enc & 0x7f, base_addr + p)
                    elif ch == "L":
                        c.lsda_enc = data[p]
                        p += 1
                    elif ch == "S":
                        c.signal = True
                    elif ch == "B":
                        pass
                    else:
                        break
                p = aug_end
            if p > end:
                raise EhError("truncated", f"CIE at {off:#x} overruns its length")
            c.instructions = bytes(data[p:end])
            cies[off] = c
        else:
            f = Fde()
            f.offset, f.addr, f.length = off, base_addr + off, end - off
            cie_off = id_off - cid
            c = cies.get(cie_off)
            if c is None:
                raise EhError("fde-cie-pointer", f"FDE at {off:#x} points to CIE offset {cie_off:#x}, where no CIE starts")
            f.cie = c
            p = body
            f.pc_begin_field_addr = base_addr + p
            f.pc_begin, p = read_encoded(data, p, c.fde_enc & 0x7f, base_addr + p)
            f.pc_range, p = read_encoded(data, p, c.fde_enc & 0x0f, base_addr + p, apply=False)
            if c.aug.startswith("z"):
                auglen, p = uleb(data, p)
                if c.lsda_enc != DW_EH_PE_omit and auglen:
                    f.lsda, _ = read_encoded(data, p, c.lsda_enc & 0x7f, base_addr + p)
                p += auglen
            if p > end:
                raise EhError("truncated", f"FDE at {off:#x} overruns its length")
            fdes.append(f)
        off = end
    return cies, fdes, terms


class EhFrameHdr:
    pass


def parse_eh_frame_hdr(data, base_addr):
    if len(data) < 4:
        raise EhError("hdr-truncated", ".eh_frame_hdr shorter than its fixed header")
    h = EhFrameHdr()
    h.version, h.eh_frame_ptr_enc, h.fde_count_enc, h.table_enc = data[0], data[1], data[2], data[3]
    if h.version != 1:
        raise EhError("hdr-version", f".eh_frame_hdr version {h.version}")
    off = 4
    h.eh_frame_ptr, off = read_encoded(data, off, h.eh_frame_ptr_enc, base_addr + off, base_addr)
    h.table = []
    h.fde_count = None
    if h.fde_count_enc == DW_EH_PE_omit:
        return h
    h.fde_count, off = read_encoded(data, off, h.fde_count_enc, base_addr + off, base_addr)
    if h.table_enc == DW_EH_PE_omit:
        return h
    for i in range(h.fde_count):
        try:
            loc, off = read_encoded(data, off, h.table_enc, base_addr + off, base_addr)
            fde, off = read_encoded(data, off, h.table_enc, base_addr + off, base_addr)
        except EhError:
            raise EhError("hdr-table-truncated", f"fde_count={h.fde_count} but the section holds only {i} table entries")
        h.table.append((loc, fde))
    h.end_off = off
    return h
