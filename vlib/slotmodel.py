"""Executable model of wild's layout-traversal slot protocol (libwild/src/layout.rs:
`GraphResources::send_work`, `GroupState::do_pending_work`, `GroupActivationInputs::activate_group`)
plus a trace validator for the event log written by the cfg(wild_verif) hooks.

Model: G groups. A *request graph* maps each work item (g, i) to the list of items it emits when
handled. Atomic steps are exactly the code's critical sections (everything under one slot lock is
one step). A schedule is a list of integers choosing which runnable task advances next.
`variant` selects the faithful protocol ("ok") or a seeded protocol mutant used to test that the
invariants have teeth.
"""

OK = "ok"
MUT_PARK_NO_RECHECK = "park-without-recheck"      # emptiness check and park in separate critical sections
MUT_SPLIT_TAKE_PUSH = "take-then-push-separately"  # worker taken in one critical section, item pushed in another
MUT_DEC_BEFORE_DELAY = "decrement-before-delay-push"  # activations_remaining decremented before delay_processing.push
VARIANTS = [OK, MUT_PARK_NO_RECHECK, MUT_SPLIT_TAKE_PUSH, MUT_DEC_BEFORE_DELAY]


class ModelViolation(Exception):
    pass


class Model:
    """Small-step interpreter. Tasks are generators yielding at every interleaving point."""

    def __init__(self, ngroups, initial, emits, delayed=None, variant=OK):
        # initial[g]: items emitted by activating group g: list of (target_group, item_id)
        # emits[(g, item)]: list of (target_group, item_id) emitted when g handles item
        self.G = ngroups
        self.initial = initial
        self.emits = emits
        self.delayed = delayed  # index of the group whose processing is delayed (synthetic symbols) or None
        self.variant = variant
        self.slot_work = [[] for _ in range(ngroups)]
        self.slot_worker = [False] * ngroups
        self.owner = [None] * ngroups      # task id that currently owns the group's state
        self.remaining = ngroups
        self.delay_q = []
        self.handled = []                  # (g, item) in handling order
        self.tasks = {}
        self.next_tid = 0
        self.steps = 0
        self.stats = {"push_to_running": 0, "push_to_parked": 0, "parks": 0, "swaps": 0, "early_requests": 0}
        self.activated = [False] * ngroups
        for g in range(ngroups):
            self._spawn(self._activate(g))

    def _spawn(self, gen):
        tid = self.next_tid
        self.next_tid += 1
        self.tasks[tid] = gen
        return tid

    # -- protocol pieces -----------------------------------------------------------------------
    def _send(self, me, tg, item, local):
        """queue.send_work: same group -> local push; else resources.send_work."""
        if tg == me:
            local.append(item)
            return
        yield  # interleaving point before taking the lock
        if not self.activated[tg]:
            self.stats["early_requests"] += 1
        if self.variant == MUT_SPLIT_TAKE_PUSH:
            took = self.slot_worker[tg]
            self.slot_worker[tg] = False
            yield  # lock released between take and push
            self.slot_work[tg].append(item)
        else:
            took = self.slot_worker[tg]
            self.slot_worker[tg] = False
            self.slot_work[tg].append(item)
        self.stats["push_to_parked" if took else "push_to_running"] += 1
        if took:
            self._spawn(self._pending(tg, [], fresh_owner=True))

    def _acquire(self, g, tid_holder):
        if self.owner[g] is not None:
            raise ModelViolation(f"group {g} state handled by two tasks at once")
        self.owner[g] = tid_holder

    def _pending(self, g, local, fresh_owner=False):
        """GroupState::do_pending_work. `local` is queue.local_work."""
        if fresh_owner:
            self._acquire(g, ("pending", g, self.steps))
        while True:
            while local:
                item = local.pop()
                self.handled.append((g, item))
                if (g, item) in self._handled_set:
                    # Requests are idempotent in the code (a section/symbol is loaded once): a repeated
                    # request is received but emits nothing further.
                    continue
                self._handled_set.add((g, item))
                for (tg, it) in self.emits.get((g, item), ()):
                    yield from self._send(g, tg, it, local)
            yield  # interleaving point before the slot lock
            if self.variant == MUT_PARK_NO_RECHECK:
                empty = not self.slot_work[g]
                if empty:
                    yield  # lock released, then re-acquired to park without re-checking
                    self.slot_worker[g] = True
                    self.owner[g] = None
                    self.stats["parks"] += 1
                    return
            elif not self.slot_work[g]:
                self.slot_worker[g] = True
                self.owner[g] = None
                self.stats["parks"] += 1
                return
            local, self.slot_work[g] = self.slot_work[g], local
            self.stats["swaps"] += 1

    def _activate(self, g):
        yield
        self._acquire(g, ("activate", g))
        local = []
        for (tg, it) in self.initial[g]:
            yield from self._send(g, tg, it, local)
        self.activated[g] = True
        if self.variant == MUT_DEC_BEFORE_DELAY and g == self.delayed:
            self.remaining -= 1
            rem = self.remaining
            yield
            self.delay_q.append((g, local))
            self.owner[g] = None
        else:
            if g == self.delayed:
                self.delay_q.append((g, local))
                self.owner[g] = None
            else:
                yield from self._pending(g, local)
            yield
            self.remaining -= 1
            rem = self.remaining
        if rem == 0:
            while self.delay_q:
                dg, dlocal = self.delay_q.pop()
                self._acquire(dg, ("delayed", dg))
                yield from self._pending(dg, dlocal)

    # -- driver --------------------------------------------------------------------------------
    _handled_set = None

    def run(self, schedule):
        """Runs to completion; `schedule` picks among runnable tasks (padded round-robin)."""
        self._handled_set = set()
        i = 0
        limit = 200000
        while self.tasks:
            tids = sorted(self.tasks)
            if i < len(schedule):
                tid = tids[schedule[i] % len(tids)]
            else:
                tid = tids[(i - len(schedule)) % len(tids)]
            i += 1
            self.steps += 1
            if self.steps > limit:
                raise ModelViolation("no termination within step limit")
            try:
                next(self.tasks[tid])
            except StopIteration:
                del self.tasks[tid]
        self.check_final()

    def check_final(self):
        for g in range(self.G):
            if self.slot_work[g]:
                raise ModelViolation(f"lost work: group {g} has {len(self.slot_work[g])} unhandled items at quiescence")
            if not self.slot_worker[g]:
                raise ModelViolation(f"group {g} not parked at quiescence")
        if self.delay_q:
            raise ModelViolation("delayed group never processed")
        want = closure(self.G, self.initial, self.emits)
        got = self._handled_set
        if got != want:
            raise ModelViolation(f"handled set differs from the sequential closure: missing {sorted(want - got)[:5]} extra {sorted(got - want)[:5]}")


def closure(G, initial, emits):
    seen = set()
    todo = [(tg, it) for g in range(G) for (tg, it) in initial[g]]
    while todo:
        x = todo.pop()
        if x in seen:
            continue
        seen.add(x)
        todo.extend(emits.get(x, ()))
    return seen


def enumerate_schedules(make_model, max_states=100000):
    """Exhaustive depth-first enumeration of all schedules of a small configuration by
    re-execution (odometer over the choice vector; memory O(depth)). Returns (runs, exhaustive?).
    Raises ModelViolation with `.schedule` attached."""
    runs = 0
    prefix = []
    while True:
        m = make_model()
        m._handled_set = set()
        choices = []
        i = 0
        try:
            while m.tasks:
                tids = sorted(m.tasks)
                c = prefix[i] if i < len(prefix) else 0
                choices.append((c, len(tids)))
                i += 1
                m.steps += 1
                try:
                    next(m.tasks[tids[c]])
                except StopIteration:
                    del m.tasks[tids[c]]
            m.check_final()
        except ModelViolation as e:
            e.schedule = [x for x, _ in choices]
            raise
        runs += 1
        if runs >= max_states:
            return runs, False
        pos = len(choices) - 1
        while pos >= 0 and choices[pos][0] + 1 >= choices[pos][1]:
            pos -= 1
        if pos < 0:
            return runs, True
        prefix = [x for x, _ in choices[:pos]] + [choices[pos][0] + 1]


# ------------------------------------------------------------------------------------------------
# Trace validation of the real code's event log


class TraceError(Exception):
    pass


def parse_events(path):
    """Returns {phase_name: [events]} where each event is (seq, kind, a, b, thread); a file may hold
    several phases (the same phase name may repeat: one list per occurrence)."""
    phases = []
    cur = None
    with open(path) as f:
        for line in f:
            if line.startswith("# phase "):
                cur = (line[8:].strip(), [])
                phases.append(cur)
                continue
            p = line.split()
            if len(p) != 5 or cur is None:
                raise TraceError(f"malformed event-log line: {line[:80]!r}")
            cur[1].append((int(p[0]), p[1], int(p[2]), int(p[3]), int(p[4])))
    return phases


def all_events(path):
    """All events of a log file as one list ordered by sequence number. The layout traversal and
    string merging can run concurrently and each flush drains the shared log, so phase headers do
    not partition events by protocol; the two protocols use disjoint event kinds instead."""
    out = []
    for _name, ev in parse_events(path):
        out.extend(ev)
    out.sort()
    return out


def validate_layout_trace(events):
    """Replays the slot-protocol events through the model's transition rules. Returns stats.
    Raises TraceError when an event is not an enabled transition or the end state is not quiescent."""
    parked, running, slot = {}, {}, {}
    stats = {"push_to_parked": 0, "push_to_running": 0, "parks": 0, "swaps": 0, "handled": 0, "early_requests": 0,
             "groups": 0, "wake_cycles": set()}
    started = set()
    abandoned = False
    quiescent_seen = False
    pushed = {}
    swapped = {}
    for (seq, kind, a, b, t) in events:
        if kind == "activate-start":
            if a in started:
                raise TraceError(f"seq {seq}: group {a} activated twice")
            started.add(a)
            stats["groups"] += 1
        elif kind == "run":
            if running.get(a):
                raise TraceError(f"seq {seq}: group {a} run by two threads at once")
            if parked.get(a):
                raise TraceError(f"seq {seq}: group {a} runs while its state is parked in the slot")
            running[a] = True
        elif kind == "handle":
            if not running.get(a):
                raise TraceError(f"seq {seq}: group {a} handles work while not running")
            stats["handled"] += 1
        elif kind == "push":
            if b == 1:
                if not parked.get(a):
                    raise TraceError(f"seq {seq}: push took a worker from group {a} whose slot held none")
                parked[a] = False
                stats["push_to_parked"] += 1
                stats["wake_cycles"].add(a)
            else:
                if parked.get(a):
                    raise TraceError(f"seq {seq}: push to parked group {a} did not take the worker (work would be lost)")
                stats["push_to_running"] += 1
                if a not in started:
                    stats["early_requests"] += 1
            slot[a] = slot.get(a, 0) + 1
            pushed[a] = pushed.get(a, 0) + 1
        elif kind == "swap":
            if not running.get(a):
                raise TraceError(f"seq {seq}: swap by group {a} while not running")
            if slot.get(a, 0) != b or b == 0:
                raise TraceError(f"seq {seq}: swap of group {a} took {b} items but the slot held {slot.get(a, 0)}")
            slot[a] = 0
            swapped[a] = swapped.get(a, 0) + b
            stats["swaps"] += 1
        elif kind == "park":
            if not running.get(a):
                raise TraceError(f"seq {seq}: park by group {a} while not running")
            if slot.get(a, 0) != 0:
                raise TraceError(f"seq {seq}: group {a} parked with {slot[a]} unhandled items in its slot")
            if parked.get(a):
                raise TraceError(f"seq {seq}: group {a} parked twice")
            parked[a] = True
            running[a] = False
            stats["parks"] += 1
        elif kind == "abandon":
            running[a] = False
            abandoned = True
        elif kind == "quiescent":
            quiescent_seen = True
            for g in started:
                if not parked.get(g):
                    raise TraceError(f"quiescent but group {g} is not parked")
                if slot.get(g, 0):
                    raise TraceError(f"quiescent but group {g} has {slot[g]} items left")
                if pushed.get(g, 0) != swapped.get(g, 0):
                    raise TraceError(f"group {g}: {pushed.get(g, 0)} requests pushed, {swapped.get(g, 0)} taken")
            if a != len(started):
                raise TraceError(f"quiescent reports {a} groups, log shows {len(started)}")
    stats["abandoned"] = abandoned
    stats["quiescent_seen"] = quiescent_seen
    stats["wake_cycles"] = len(stats["wake_cycles"])
    return stats
