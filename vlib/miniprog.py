"""Tiny generated x86-64 freestanding programs for the fault/history checks (C17, C20, C35, C39...).

spec = {"n": objects, "calls": [[callee indices] per object], "strings": [per-object string],
        "kind": "static"|"pie"|"shared", "archive": bool (objects 1.. go into lib.a)}
`build(spec, dir)` assembles the objects and returns (inputs, link_args) — link args exclude -o.
The program (kind static) prints the IDs it reaches in call order and exits 0.
"""
from hypothesis import strategies as st

from . import tools


def spec_strategy(max_objs=5, kinds=("static", "pie", "shared")):
    def build(n, seeds, kind, archive, strs):
        calls = []
        for i in range(n):
            # Object i calls a subset of later objects (DAG) so the program terminates.
            later = list(range(i + 1, n))
            pick = [j for k, j in enumerate(later) if (seeds[i] >> k) & 1]
            if i + 1 < n and i + 1 not in pick and i == 0:
                pick.insert(0, i + 1)
            calls.append(pick)
        return {"n": n, "calls": calls, "strings": strs[:n], "kind": kind, "archive": archive and n > 1}
    return st.integers(1, max_objs).flatmap(lambda n: st.builds(
        build, st.just(n), st.lists(st.integers(0, 255), min_size=n, max_size=n), st.sampled_from(kinds),
        st.booleans(), st.lists(st.text(alphabet="abcxyz", min_size=0, max_size=12), min_size=n, max_size=n)))


def obj_source(spec, i):
    pic = spec["kind"] != "static"
    calls = "".join(f"    call f{j}{'@PLT' if pic else ''}\n" for j in spec["calls"][i])
    s = spec["strings"][i]
    if pic:
        store = "    movq last_str@GOTPCREL(%rip), %rbx\n    movq %rax, (%rbx)\n"
    else:
        store = "    movq %rax, last_str(%rip)\n"
    out = f"""
    .section .rodata.str1.1,"aMS",@progbits,1
.Lstr{i}: .string "{s}"
    .section .text.f{i},"ax",@progbits
    .globl f{i}
    .type f{i},@function
f{i}:
    pushq %rbx
    movl ${i + 1}, %edi
    call emit{'@PLT' if pic else ''}
    leaq .Lstr{i}(%rip), %rax
{store}{calls}    popq %rbx
    ret
    .size f{i}, .-f{i}
    .section .data.d{i},"aw",@progbits
    .globl d{i}
d{i}: .quad f{i}
"""
    if i == 0:
        out += f"""
    .section .bss
    .globl last_str
last_str: .skip 8
    .comm outbuf, 256, 16
    .comm outpos, 8, 8
    .hidden outbuf
    .hidden outpos
    .section .text.emit,"ax",@progbits
    .globl emit
    .type emit,@function
emit:
    movq outpos(%rip), %rax
    leaq outbuf(%rip), %rcx
    addl $0x40, %edi
    movb %dil, (%rcx,%rax)
    incq %rax
    movq %rax, outpos(%rip)
    ret
    .size emit, .-emit
    .section .text._start,"ax",@progbits
    .globl _start
    .type _start,@function
_start:
    andq $-16, %rsp
    call f0{'@PLT' if pic else ''}
    movl $1, %eax
    movl $1, %edi
    leaq outbuf(%rip), %rsi
    movq outpos(%rip), %rdx
    syscall
    movl $60, %eax
    xorl %edi, %edi
    syscall
    .size _start, .-_start
"""
    return out


def build(spec, d):
    objs = []
    for i in range(spec["n"]):
        tools.asm(obj_source(spec, i), f"o{i}.o", cwd=d)
        objs.append(f"o{i}.o")
    inputs = list(objs)
    if spec["archive"]:
        tools.ar("lib.a", objs[1:], cwd=d)
        inputs = [objs[0], "lib.a"]
    args = list(inputs)
    if spec["kind"] == "pie":
        args = ["-pie", "--no-dynamic-linker"] + args
    elif spec["kind"] == "shared":
        args = ["-shared"] + args
    return inputs, args


def expected_stdout(spec):
    out = []

    def visit(i):
        out.append(chr(0x40 + i + 1))
        for j in spec["calls"][i]:
            visit(j)
    visit(0)
    return "".join(out)[:256]
