"""progen — x86-64 program generator and link/run shells shared by C01/C05/C27/C28.

Everything a generated program prints is layout independent: every definition carries a unique
ID, every reference site prints `(site_id, observed value)` through `emit2`, and the buffer is
written to stdout by `flush_out` at exit.  stdout + exit status is "the behaviour".

PUBLIC API (keep it small; other checks import this)
----------------------------------------------------
Shell layer (any generator can use it):
  MODES                      output kinds: "static" (freestanding _start, raw syscalls, no libc),
                             "static-libc", "static-pie", "pie", "dyn" (dynamic non-PIE), "shared"
                             (program in libprog.so, fixed main exe linked by GNU ld)
  runtime_objs(ctx, mode)    -> list of absolute paths of shell objects for that mode (cached per
                             worker under ctx.root): emit2/flush_out runtime + start or main shell.
                             The program must define `int vmain(void)`; its return value is the
                             exit status.  init/preinit/fini arrays are run by both shells.
  link_program(linker, mode, objs, out, ctx, opts=(), libs=(), cwd=None) -> tools.Result
                             links `objs` (+ shell objects) into `out` with linker in
                             {"wild","ld","lld"}; `opts` are ld-style options (wrapped in -Wl, when
                             the compiler driver is used); `libs` are extra shared libs / args.
  run_program(out, cwd, mode) -> (stdout, rc) ; raises Inconclusive on timeout
  behaviour(linker, mode, objs, ctx, tag, opts=(), libs=(), cwd=None)
                             -> ("ok", stdout, rc) | ("reject", stderr, rc) | ("crash", stderr, rc)
  wild_crashed(res)          -> True iff a tools.Result of wild shows a panic / signal
  shrink_budget(seconds)     decorator for Check.run_case: once a Violation has been raised in this
                             worker, Hypothesis' shrinking is given `seconds` of wall time, after
                             which further candidates return immediately as "passing" (the reported
                             case is always one that really failed; replay is unaffected).

Site-program layer (reference kinds x symbol kinds, used by C01/C27/C28):
  program_strategy(max_defs, max_sites, def_kinds=None, ntu=(2,4), binds=None)
                                 Hypothesis strategy of raw JSON specs (ints/strs only)
  realise(spec, modes, rare_refs=(), allow_known=False) -> Program
                                 normalised program that is inside the soundness domain (`ref_ok`)
                                 of *every* output kind in `modes`; targets / reference kinds are
                                 picked by index modulo the sound choices, so every raw spec and
                                 every shrink of it is a valid program
  Program.emit(cwd)              assembles t0.o.. + drv.o (+ libvhelper.so, linked by GNU ld, when
                                 DSO symbols are used); returns {"objs": [...], "libs": [...]}
  Program.expected() / .expected_rc()   stdout / exit status per the generator's own model
  Program.classes()              ["ref/kind:bind", ...] for histograms
  Program.known_domains()        signatures of known findings whose exact domain the program enters
  Program.explicit(ntu, defs, sites, modes)   build from already-normalised lists (matrix passes)
  ref_ok(ref, def, mode, k)      the calibrated soundness table; known_domain(ref, def, mode)
See the section "Site programs" below for the spec format.
"""
import functools
import os
import time

from . import tools
from .core import Inconclusive

MODES = ("static", "static-libc", "static-pie", "pie", "dyn", "shared")
PIC_MODES = ("static-pie", "pie", "shared")
LIBC_MODES = ("static-libc", "static-pie", "pie", "dyn", "shared")
DYNAMIC_MODES = ("pie", "dyn", "shared")

NOTE_GNU_STACK = '    .section .note.GNU-stack,"",@progbits\n'

def shrink_budget(seconds=40):
    def deco(fn):
        state = {"t_fail": None}

        @functools.wraps(fn)
        def wrapper(self, case, ctx):
            if state["t_fail"] is not None and not getattr(ctx, "strict", False) and time.time() - state["t_fail"] > seconds:
                return {"nontrivial": False, "classes": ["shrink_budget_exhausted"]}
            try:
                return fn(self, case, ctx)
            except Exception as e:
                if type(e).__name__ in ("Violation", "Inconclusive") and state["t_fail"] is None and not getattr(ctx, "strict", False):
                    state["t_fail"] = time.time()
                raise
        return wrapper
    return deco


# ------------------------------------------------------------------------------------------------
# Runtime + shells

RUNTIME_C = r"""
typedef unsigned long u64;
static char buf[1 << 16];
static u64 pos;
static void put(char c) { if (pos < sizeof buf) buf[pos++] = c; }
void emit2(u64 site, u64 v) {
    const char *h = "0123456789abcdef";
    for (int i = 28; i >= 0; i -= 4) put(h[(site >> i) & 15]);
    put(' ');
    for (int i = 60; i >= 0; i -= 4) put(h[(v >> i) & 15]);
    put('\n');
}
void flush_out(void) {
    u64 off = 0;
    while (off < pos) {
        long r;
        __asm__ volatile("syscall" : "=a"(r) : "a"(1), "D"(1), "S"(buf + off), "d"(pos - off)
                         : "rcx", "r11", "memory");
        if (r <= 0) break;
        off += r;
    }
    pos = 0;
}
"""

# Freestanding start: runs preinit/init arrays, vmain, fini array (forward order), flushes, exits.
# The array boundary symbols are provided by all three linkers for static links.
FREESTANDING_START_C = r"""
typedef void (*fn)(void);
extern fn __preinit_array_start[] __attribute__((weak, visibility("hidden")));
extern fn __preinit_array_end[] __attribute__((weak, visibility("hidden")));
extern fn __init_array_start[] __attribute__((weak, visibility("hidden")));
extern fn __init_array_end[] __attribute__((weak, visibility("hidden")));
extern fn __fini_array_start[] __attribute__((weak, visibility("hidden")));
extern fn __fini_array_end[] __attribute__((weak, visibility("hidden")));
extern int vmain(void);
extern void flush_out(void);
__attribute__((noreturn, used)) void vstart_c(void) {
    for (fn *p = __preinit_array_start; p < __preinit_array_end; p++) (*p)();
    for (fn *p = __init_array_start; p < __init_array_end; p++) (*p)();
    int rc = vmain();
    for (fn *p = __fini_array_end; p > __fini_array_start;) (*--p)();
    flush_out();
    __asm__ volatile("syscall" : : "a"(60), "D"(rc) : "rcx", "r11", "memory");
    for (;;) {}
}
__asm__(".globl _start\n.section .text._start,\"ax\",@progbits\n_start:\n xorl %ebp,%ebp\n andq $-16,%rsp\n call vstart_c\n");
"""

# libc shell: main calls vmain; output is flushed at the end of main and again (idempotent) from a
# destructor so that fini-array functions of the program can still emit.
LIBC_MAIN_C = r"""
extern int vmain(void);
extern void flush_out(void);
int main(void) { int rc = vmain(); flush_out(); return rc; }
"""

RT_FLAGS = ["-O1", "-ffreestanding", "-fno-stack-protector", "-fno-asynchronous-unwind-tables",
            "-fno-builtin", "-fcf-protection=none"]


def cache_dir(ctx):
    d = os.path.join(ctx.root, "progen-cache")
    os.makedirs(d, exist_ok=True)
    return d


def _cached_cc(ctx, name, src, flags):
    d = cache_dir(ctx)
    out = os.path.join(d, name)
    if not os.path.exists(out):
        tmp = out + ".tmp.o"
        tools.cc(src, tmp, flags=flags, cwd=d)
        os.rename(tmp, out)
    return out


def runtime_objs(ctx, mode):
    """Shell objects for `mode` (compiled once per worker)."""
    if mode == "static":
        return [_cached_cc(ctx, "start_fs.o", FREESTANDING_START_C, RT_FLAGS + ["-fno-pic"]),
                _cached_cc(ctx, "rt_nopic.o", RUNTIME_C, RT_FLAGS + ["-fno-pic"])]
    if mode in ("static-libc", "dyn"):
        return [_cached_cc(ctx, "main_nopic.o", LIBC_MAIN_C, ["-O1", "-fno-pic"]),
                _cached_cc(ctx, "rt_nopic.o", RUNTIME_C, RT_FLAGS + ["-fno-pic"])]
    if mode in ("static-pie", "pie"):
        return [_cached_cc(ctx, "main_pic.o", LIBC_MAIN_C, ["-O1", "-fPIE"]),
                _cached_cc(ctx, "rt_pic.o", RUNTIME_C, RT_FLAGS + ["-fPIC"])]
    if mode == "shared":
        # runtime lives in the shared object together with the program
        return [_cached_cc(ctx, "rt_pic.o", RUNTIME_C, RT_FLAGS + ["-fPIC"])]
    raise ValueError(mode)


MODE_CC_FLAG = {"static-libc": ["-static", "-no-pie"], "static-pie": ["-static-pie"], "pie": ["-pie"],
                "dyn": ["-no-pie"], "shared": ["-shared"]}


def _wl(opts):
    out = []
    for o in opts:
        out.append("-Wl," + o)
    return out


def link_program(linker, mode, objs, out, ctx, opts=(), libs=(), cwd=None, timeout=90):
    """Links objs + shell objects. For mode "shared": builds lib<out>.so with `linker` and a fixed
    main executable `out` with GNU ld that calls vmain from it."""
    rt = runtime_objs(ctx, mode)
    if mode == "static":
        return tools.link(linker, ["-o", out, *opts, *rt, *objs, *libs], cwd=cwd, timeout=timeout)
    if mode == "shared":
        so = out + ".so"
        r = tools.cc_link(linker, ["-shared", "-nostartfiles", "-o", so, *_wl(opts), *objs, *rt, *libs], cwd=cwd,
                          timeout=timeout)
        if r.rc != 0 or r.timed_out:
            return r
        main_o = _cached_cc(ctx, "main_pic.o", LIBC_MAIN_C, ["-O1", "-fPIE"])
        r2 = tools.cc_link("ld", ["-pie", "-o", out, main_o, so, *libs, "-Wl,-rpath,$ORIGIN"], cwd=cwd, timeout=timeout)
        if r2.rc != 0:
            # The fixed GNU ld step failing is attributed to the shared object under test only by
            # the caller (reference .so failing here is a harness problem).
            r2.err = "[main-exe link by GNU ld] " + r2.err
        return r2
    return tools.cc_link(linker, [*MODE_CC_FLAG[mode], "-o", out, *_wl(opts), *rt, *objs, *libs], cwd=cwd, timeout=timeout)


def run_program(out, cwd, timeout=20):
    """Runs the program; a timeout is retried once with a longer limit (shared, loaded machine) and
    is then a harness-level Inconclusive, never a verdict."""
    path = out if os.path.isabs(out) else os.path.join(cwd, out)
    r = tools.run_exe(path, cwd=cwd, timeout=timeout)
    if r.timed_out:
        r = tools.run_exe(path, cwd=cwd, timeout=timeout * 6)
        if r.timed_out:
            raise Inconclusive(f"generated program {out} timed out twice ({timeout}s, {timeout * 6}s)")
    return (r.out, r.rc)


def wild_crashed(res):
    return res.rc < 0 or "panicked at" in res.err or res.rc == 101


def behaviour(linker, mode, objs, ctx, tag, opts=(), libs=(), cwd=None):
    """Link + run. Returns (status, text, rc): status "ok" (text = stdout), "reject" (linker
    diagnostic, text = stderr), "crash" (linker crashed/timed out)."""
    cwd = cwd or ctx.dir
    out = f"{tag}.out"
    r = link_program(linker, mode, objs, out, ctx, opts=opts, libs=libs, cwd=cwd)
    if r.timed_out:
        # Timeouts are not verdicts for these properties (guide): retry once with a long limit, then
        # give up as Inconclusive.
        r = link_program(linker, mode, objs, out, ctx, opts=opts, libs=libs, cwd=cwd, timeout=400)
        if r.timed_out:
            raise Inconclusive(f"{linker} link timed out twice (90s, 400s) in mode {mode}")
    if r.rc != 0:
        if linker == "wild" and wild_crashed(r):
            return ("crash", r.err[-1500:], r.rc)
        return ("reject", r.err[-1500:], r.rc)
    so, rc = run_program(out, cwd)
    return ("ok", so, rc)


# ================================================================================================
# Site programs
#
# Raw spec (JSON, produced by program_strategy; every field is an int/str/bool/list):
#   {"ntu": 2..4,
#    "defs":  [{"tu": int, "kind": DEF_KINDS, "bind": BINDS, "pad": 0..2, "aux": int, "dup": int}, ...],
#    "sites": [{"tu": int, "ref": int, "tgt": int, "k": 0..3, "aux": int}, ...]}
# `realise(spec, modes)` turns it into a Program: targets/reference kinds are picked *by index
# modulo the list of choices that are sound for every mode in `modes`* so that every raw spec
# (including every shrink of it) denotes a valid program.
#
# Definitions (unique 24-bit id I; value observed through a reference with index k is (I<<8)|k):
#   func    two entry points 8 bytes apart returning (I<<8)|0 and (I<<8)|1
#   data / rodata   four quads (I<<8)|k in .data.NAME / .rodata.NAME (pad quads before the label)
#   common  .comm NAME,32,8, filled by the owning TU's init function
#   tdata / tbss    TLS, four quads (tbss filled by the init function through an IE reference)
#   abs     absolute symbol (value from ABS_VALUES); observed value is the "address" itself
#   ifunc   STT_GNU_IFUNC whose resolver picks an implementation returning (I<<8)|0
#   str     NUL-terminated string in a mergeable section; observed = 8 bytes at offset k
#   hfunc / hdata / htls   defined in the helper shared library (dynamic modes only)
#   wundef  weak undefined (address observed as 0, never dereferenced/called)
# "dup" > 0 on a global func/data adds a losing weak duplicate with another id in another TU.

DEF_KINDS = ["func", "func", "data", "data", "rodata", "common", "tdata", "tbss", "abs", "ifunc", "str",
             "hfunc", "hdata", "htls", "wundef"]
BINDS = ["local", "global", "hidden", "protected", "weak"]
ABS_VALUES = [0, 1, 0x1234, 0x7ffffff0, 0x80000000, 0x90000000, 0xfffffff0, 0x100000000, 0x123456789a,
              0x7ffffffffffffff0, 0xffffffff80000000, 0xfffffffffffffff0]
STRINGS = ["hello-world-0123456789abcdefXYZ", "world-0123456789abcdefXYZ", "0123456789abcdefXYZ",
           "another-string-constant-for-merging", "constant-for-merging", "zzzzzzzzzzzzzzzzzzzzzzzzzzzzzzzz"]
M64 = (1 << 64) - 1

CAT = {"func": "func", "ifunc": "func", "hfunc": "func", "data": "data", "rodata": "data", "common": "data",
       "str": "data", "hdata": "data", "tdata": "tls", "tbss": "tls", "htls": "tls", "abs": "abs", "wundef": "wundef"}

REXOPS = ["mov", "add", "sub", "or", "xor", "and", "adc", "sbb", "cmp", "test"]
# name -> (class, nonpic_only)
REFS = {
    "abs64d": ("abs", False), "abs64t": ("abs", True), "abs32": ("abs", True), "abs32s": ("abs", True),
    "abs32sm": ("abs", True), "abs32d": ("abs", True),
    "pc32": ("pc", False), "pc32m": ("pc", False), "pc32d": ("pc", False), "pc64": ("pc", False),
    "gotoff64": ("pc", False),
    "gotpcrel": ("got", False), "gotpcrelx": ("got", True), "got64": ("got", False),
    "call": ("plt", False), "jmp": ("plt", False), "gotcall": ("got", False), "gotjmp": ("got", False),
    "pltoff64": ("plt", False),
    "viahelper": ("plt", False),     # call a trampoline in the helper DSO that jumps back to an exe-defined global
    "tpoff32m": ("tls", False), "tpoff32i": ("tls", False), "tpoff64d": ("tls", False),
    "gottpoff": ("tls", False), "gottpoff_add": ("tls", False), "tlsgd": ("tls", False),
    "tlsld": ("tls", False), "tlsdesc": ("tls", False),
}
for _op in REXOPS:
    REFS["rexgot_" + _op] = ("got", False)
REF_NAMES = list(REFS)
FUNC_ONLY = {"call", "jmp", "gotcall", "gotjmp", "pltoff64", "viahelper"}
DEREF_ONLY = {"abs32sm", "pc32m"}          # the instruction itself loads the value
FLAG_OBS = {"rexgot_cmp", "rexgot_test"}   # observation is a flag (1), not an address
DATA_SITE = {"abs64d", "abs32d", "pc32d", "pc64", "tpoff64d"}   # the relocation sits in a data section
GOT_FAMILY = {r for r, (c, _) in REFS.items() if c == "got"}
# references that never had wild support in this tree are listed here after probing (kept out of
# the domain by construction, see probe notes in the C01 docstring)
UNSUPPORTED_REFS = {"tpoff64d"}      # R_X86_64_TPOFF64 in data: rejected by lld 14 and by wild


def preemptible(t, mode):
    return mode == "shared" and t["kind"] in ("func", "data", "rodata", "common", "tdata", "tbss", "ifunc", "str") \
        and t["bind"] in ("global", "weak")


RELAXED_TO_IMM = {"rexgot_mov", "rexgot_sub", "rexgot_cmp"}


def abs_domain_known_defect(ref, t):
    """Domain of the finding `abs-gotpcrelx-imm-sign-extended` (fixed upstream by 93d89dd): REX.W
    mov/sub/cmp sym@GOTPCREL(%rip) against an absolute symbol in [2^31, 2^32) used to be relaxed to
    a sign-extended imm32 with the wrong value. Since the fix the link is refused instead, see
    abs_domain_link_error. Kept for the regression replay only."""
    return False


def abs_domain_link_error(ref, t):
    """REX.W mov/sub/cmp sym@GOTPCREL(%rip) against an absolute symbol whose value does not fit a
    sign-extended imm32: wild still relaxes and then fails the link ("Relocation N outside of
    bounds [-2147483648, 2147483648)") where GNU ld/lld keep the GOT load. A rejected link is
    outside C01's quantifier, so this domain is never generated (it would only produce discards)."""
    return t["kind"] == "abs" and ref in RELAXED_TO_IMM and (1 << 31) <= t["absval"] < (1 << 64) - (1 << 31)


def tlsgd_protected_shared_domain(ref, t, mode):
    """Exact domain of the known finding C01 `tlsgd-protected-shared`: general-dynamic TLS reference
    to a protected-visibility TLS symbol when the output is a shared object (wild emits DTPMOD64
    against the symbol but neither a DTPOFF64 relocation nor the static offset: offset word = 0)."""
    return mode == "shared" and ref == "tlsgd" and t["kind"] in ("tdata", "tbss") and t["bind"] == "protected"


_KNOWN_C01 = None


def _still_known(sig):
    """True while known_findings.jsonl lists `sig` for C01 with status `known` (a fixed finding's
    domain is searched again)."""
    global _KNOWN_C01
    if _KNOWN_C01 is None:
        from . import core as _core
        _KNOWN_C01 = {e["signature"] for e in _core.load_known("C01") if e.get("status") == "known"}
    return sig in _KNOWN_C01


def known_domain(ref, t, mode):
    """Signature of the known finding whose exact domain contains this reference, else None."""
    if abs_domain_known_defect(ref, t) and _still_known("abs-gotpcrelx-imm-sign-extended"):
        return "abs-gotpcrelx-imm-sign-extended"
    if tlsgd_protected_shared_domain(ref, t, mode) and _still_known("tlsgd-protected-shared"):
        return "tlsgd-protected-shared"
    return None


def ref_ok(ref, t, mode, k=0, allow_known=False):
    """Soundness domain: may reference kind `ref` target definition `t` in output kind `mode`?
    allow_known=True also admits the exact domains of known findings (C01 generates them, then
    skips and counts those cases)."""
    if ref in UNSUPPORTED_REFS or abs_domain_link_error(ref, t):
        return False
    if not allow_known and known_domain(ref, t, mode):
        return False
    cls, nonpic = REFS[ref]
    kind = t["kind"]
    cat = CAT[kind]
    pic = mode in PIC_MODES
    helper = kind in ("hfunc", "hdata", "htls")
    if helper and mode not in DYNAMIC_MODES:
        return False
    if nonpic and pic:
        return False
    if t["kind"] == "abs" and ref == "got64" and mode in PIC_MODES:
        return False      # GNU ld: "R_X86_64_GOT64 against absolute symbol ... is disallowed" in PIE
    if ref == "viahelper":
        # the DSO looks the symbol up by name at run time: the executable's dynamic symbol table
        # and hash table are exercised. Needs an exported (default visibility, strong) definition.
        return mode in ("pie", "dyn") and kind == "func" and t["bind"] == "global"
    if ref in ("got64", "pltoff64") and t["bind"] == "local":
        return False      # gas turns sym@GOT/@PLTOFF on a local symbol into section+offset (G+A): not meaningful
    if cat == "tls":
        if mode == "static" or cls != "tls":
            return False
        if ref in ("tpoff32m", "tpoff32i", "tpoff64d"):
            return mode != "shared" and not helper
        if ref == "tlsld":
            return not helper and not preemptible(t, mode)
        return True
    if cls == "tls":
        return False
    if kind == "ifunc" and mode == "static":
        return False
    if ref in FUNC_ONLY and cat != "func":
        return False
    if ref in DEREF_ONLY and cat != "data":
        return False
    if cat == "abs":
        v = (t["absval"] + 8 * k) & M64
        if t["absval"] + 8 * k > M64:
            return False                      # no wrap-around arithmetic in the domain
        if ref == "abs64d" or ref == "abs64t":
            return True
        if ref in ("abs32", "abs32d", "gotpcrelx"):
            return v < (1 << 32)
        if ref == "abs32s":
            return v < (1 << 31) or v >= M64 + 1 - (1 << 31)
        if mode == "shared":
            return False                      # GNU ld 2.40 hits a BFD assertion for GOT forms on absolute symbols in -shared
        if cls == "got" and ref not in ("gotcall", "gotjmp"):
            return True
        return False
    if cat == "wundef":
        if ref in FLAG_OBS:
            return False
        if ref in ("abs64t", "abs32", "abs32s") or (cls == "got" and ref not in ("gotcall", "gotjmp")):
            return True
        if ref == "abs64d":
            return True
        return False
    if kind == "ifunc" and ref in ("gotoff64", "abs32d", "pc32d", "pc64", "got64", "pltoff64"):
        return False      # GNU ld: "relocation R_X86_64_* against STT_GNU_IFUNC symbol isn't supported"
    if helper and ref == "gotpcrelx":
        return False      # 32-bit load of a GOT entry that holds an address above 4 GiB
    if helper and ref == "abs32d":
        return False      # 32-bit dynamic relocation in writable data: rejected by GNU ld
    if cat == "abs" and ref == "got64" and pic:
        return False      # GNU ld: "R_X86_64_GOT64 against absolute symbol ... is disallowed" in PIE
    if cls == "pc":
        if helper and ref in ("pc32", "pc32m") and (mode == "dyn" or (mode == "pie" and cat == "data")):
            return True   # copy relocation / canonical PLT in an executable (GNU ld rejects PC32 to a DSO function in PIE)
        if helper or preemptible(t, mode):
            return False
        if mode == "shared" and t["bind"] == "protected":
            return False
        return True
    return True


def fix_k(ref, t, k, modes):
    """Addend index actually used: functions have two entry points; PLT/canonical-PLT/ifunc targets
    only make sense with addend 0 when the relocation itself carries the addend."""
    cat = CAT[t["kind"]]
    if t["kind"] in ("ifunc", "wundef", "hfunc"):
        return 0          # hfunc: a canonical PLT entry may stand for the function; it has one entry point
    if t["kind"] == "str":
        return k % ((len(STRINGS[t["sid"]]) + 1) // 8)
    if ref == "viahelper":
        return 0
    if ref == "pltoff64":
        return 0          # the value is a PLT entry address when not relaxed: only its start is meaningful
    if cat == "func":
        k %= 2
        carries = REFS[ref][0] in ("abs", "pc", "plt")
        if carries and (t["kind"] == "hfunc" or any(preemptible(t, m) for m in modes)):
            return 0
    return k


class Program:
    """Normalised program. `defs`: list of dicts (name,kind,bind,tu,id,pad,absval,sid,dup_tu);
    `sites`: list of dicts (n,tu,ref,tgt,k,ro)."""

    @classmethod
    def explicit(cls, ntu, defs, sites, modes):
        """Builds a Program from already-normalised defs/sites (used by matrix passes)."""
        p = cls.__new__(cls)
        p.modes, p.ntu, p.defs, p.sites = tuple(modes), ntu, defs, sites
        p.pic = any(m in PIC_MODES for m in modes)
        return p

    def __init__(self, spec, modes, rare_refs=(), allow_known=False):
        """rare_refs: reference kinds drawn 8x less often (a site whose draw lands on one of them keeps
        it only if its `aux` is a multiple of 8, else takes the next non-rare kind)."""
        self.modes = tuple(modes)
        self.ntu = max(2, min(6, spec["ntu"]))
        self.defs = []
        self.sites = []
        libc = all(m in LIBC_MODES for m in modes)
        dyn = all(m in DYNAMIC_MODES for m in modes)
        local_ord = {}
        for i, r in enumerate(spec["defs"][:40]):
            kind, bind = r["kind"], r["bind"]
            tu = r["tu"] % self.ntu
            if kind in ("tdata", "tbss", "ifunc", "htls") and not libc:
                kind = "data" if kind != "ifunc" else "func"
            if kind in ("hfunc", "hdata", "htls") and not dyn:
                kind = {"hfunc": "func", "hdata": "data", "htls": "tdata"}[kind]
            d = {"kind": kind, "bind": bind, "tu": tu, "id": 0x100 + i, "pad": r["pad"] % 3, "absval": 0, "sid": 0,
                 "dup_tu": None}
            if kind == "abs":
                d["absval"] = ABS_VALUES[r["aux"] % len(ABS_VALUES)]
                if bind == "local":
                    d["bind"] = "global"
            elif kind == "str":
                d["sid"] = r["aux"] % len(STRINGS)
                d["bind"] = "local"
            elif kind == "common":
                if bind in ("local", "weak", "protected"):
                    d["bind"] = "global"
            elif kind in ("hfunc", "hdata", "htls"):
                d["bind"] = "global"
                d["tu"] = -1
            elif kind == "wundef":
                d["bind"] = "weak"
                d["tu"] = -1
            elif kind == "ifunc":
                if bind in ("weak", "protected"):
                    d["bind"] = "global"
            if d["bind"] == "local":
                # same local names in different TUs on purpose
                o = local_ord.get((tu, kind), 0)
                local_ord[(tu, kind)] = o + 1
                d["name"] = f"L{kind}{o}"
            else:
                d["name"] = f"{kind[0]}{kind[-1]}{i}"
            if r["dup"] and d["bind"] == "global" and kind in ("func", "data", "rodata") and self.ntu > 1:
                d["dup_tu"] = (tu + 1 + (r["dup"] - 1) % (self.ntu - 1)) % self.ntu
            self.defs.append(d)
        if not any(CAT[d["kind"]] in ("func", "data") and not d["kind"].startswith("h") for d in self.defs):
            self.defs.append({"kind": "data", "bind": "global", "tu": 0, "id": 0x1ff, "pad": 0, "absval": 0, "sid": 0,
                              "dup_tu": None, "name": "da_fallback"})
        nd = len(self.defs)
        for j, r in enumerate(spec["sites"][:40]):
            tu = r["tu"] % self.ntu
            k = r["k"] % 4
            chosen = None
            order = [(r["tgt"] + off) % nd for off in range(nd)]
            if r["aux"] & 2:      # half of the sites look for a local definition of their own TU first
                order.sort(key=lambda i: not (self.defs[i]["bind"] == "local" and self.defs[i]["tu"] == tu))
            for di in order:
                t = self.defs[di]
                if t["bind"] == "local" and t["tu"] != tu:
                    continue
                if t["kind"] == "abs" and t["tu"] == tu:
                    continue      # gas folds a same-file absolute symbol instead of emitting a relocation
                refs = [x for x in REF_NAMES if all(ref_ok(x, t, m, fix_k(x, t, k, modes), allow_known) for m in modes)]
                if refs:
                    ref = refs[r["ref"] % len(refs)]
                    if ref in rare_refs and r["aux"] % 8 != 0:
                        common_refs = [x for x in refs if x not in rare_refs]
                        if common_refs:
                            ref = common_refs[r["ref"] % len(common_refs)]
                    chosen = (t, ref, fix_k(ref, t, k, modes))
                    break
            if chosen is None:
                continue
            t, ref, kk = chosen
            self.sites.append({"n": j + 1, "tu": tu, "ref": ref, "tgt": self.defs.index(t), "k": kk,
                               "ro": bool(r["aux"] & 1)})
        self.pic = any(m in PIC_MODES for m in modes)

    # -- queries ----------------------------------------------------------------------------------
    def uses_helper(self):
        return any(self.defs[s["tgt"]]["kind"] in ("hfunc", "hdata", "htls") or s["ref"] == "viahelper" for s in self.sites)

    def known_domains(self):
        """Signatures of known findings whose exact domain this program enters (for any of its modes)."""
        out = set()
        for s in self.sites:
            for m in self.modes:
                k = known_domain(s["ref"], self.defs[s["tgt"]], m)
                if k:
                    out.add(k)
        return sorted(out)

    def classes(self):
        out = []
        for s in self.sites:
            t = self.defs[s["tgt"]]
            out.append(f"{s['ref']}/{t['kind']}:{t['bind']}")
        return out

    def string_value(self, t, k):
        b = (STRINGS[t["sid"]] + "\0").encode()
        assert 8 * k + 8 <= len(b)
        return int.from_bytes(b[8 * k:8 * k + 8], "little")

    def expected_value(self, s):
        t = self.defs[s["tgt"]]
        cat = CAT[t["kind"]]
        if s["ref"] == "rexgot_test" and cat == "abs":
            return int(t["absval"] != 0)
        if s["ref"] in FLAG_OBS:
            return 1
        if cat == "abs":
            return (t["absval"] + 8 * s["k"]) & M64
        if cat == "wundef":
            return 0
        if t["kind"] == "str":
            return self.string_value(t, s["k"])
        return (t["id"] << 8) | s["k"]

    def expected(self):
        lines = [f"{s['n']:08x} {self.expected_value(s):016x}\n" for s in self.sites]
        return "".join(lines)

    def expected_rc(self):
        return 1 + (len(self.sites) & 0x3f)

    @staticmethod
    def def_section(d):
        """Name of the input section a definition is emitted into (None for abs/common/undefined)."""
        kind = d["kind"]
        suffix = "" if d["pad"] == 2 else "." + d["name"]
        if kind in ("func",):
            return ".text" + suffix
        if kind == "ifunc":
            return ".text." + d["name"]
        if kind == "data":
            return ".data" + suffix
        if kind == "rodata":
            return ".rodata" + suffix
        if kind in ("tdata", "tbss"):
            return "." + kind
        if kind == "str":
            return ".rodata.str1.1"
        return None

    # -- emission ---------------------------------------------------------------------------------
    @staticmethod
    def _decl(name, bind, typ):
        s = ""
        if bind == "weak":
            s += f"    .weak {name}\n"
        elif bind != "local":
            s += f"    .globl {name}\n"
        if bind in ("hidden", "protected"):
            s += f"    .{bind} {name}\n"
        s += f"    .type {name},{typ}\n"
        return s

    def _emit_def(self, d, weak_copy=False):
        name, kind, did = d["name"], d["kind"], d["id"]
        bind = "weak" if weak_copy else d["bind"]
        if weak_copy:
            did = did | 0x8000          # the losing copy carries a different id
        s = []
        suffix = "" if d["pad"] == 2 else "." + name      # pad == 2: plain .text/.data/.rodata shared by many defs
        if kind == "func":
            s.append(f'    .section .text{suffix},"ax",@progbits\n    .balign 8\n')
            s.append("    .quad 0x9090909090909090\n" * d["pad"])
            s.append(self._decl(name, bind, "@function"))
            s.append(f"{name}:\n    mov ${did << 8}, %eax\n    ret\n    .balign 8\n    mov ${(did << 8) | 1}, %eax\n    ret\n"
                     f"    .size {name}, .-{name}\n")
        elif kind in ("data", "rodata"):
            sec, fl = (".data", "aw") if kind == "data" else (".rodata", "a")
            s.append(f'    .section {sec}{suffix},"{fl}",@progbits\n    .balign 8\n')
            s.append("    .quad 0x5a5a5a5a5a5a5a5a\n" * d["pad"])
            s.append(self._decl(name, bind, "@object"))
            s.append(f"{name}:\n" + "".join(f"    .quad {(did << 8) | k}\n" for k in range(4)) + f"    .size {name}, 32\n")
        elif kind == "common":
            s.append(f"    .comm {name},32,8\n")
            if bind == "hidden":
                s.append(f"    .hidden {name}\n")
        elif kind == "tdata":
            s.append('    .section .tdata,"awT",@progbits\n    .balign 8\n')
            s.append("    .quad 0x5a5a5a5a5a5a5a5a\n" * d["pad"])
            s.append(self._decl(name, bind, "@object"))
            s.append(f"{name}:\n" + "".join(f"    .quad {(did << 8) | k}\n" for k in range(4)) + f"    .size {name}, 32\n")
        elif kind == "tbss":
            s.append('    .section .tbss,"awT",@nobits\n    .balign 8\n')
            s.append("    .zero 8\n" * d["pad"])
            s.append(self._decl(name, bind, "@object"))
            s.append(f"{name}:\n    .zero 32\n    .size {name}, 32\n")
        elif kind == "abs":
            s.append(self._decl(name, bind, "@notype"))
            s.append(f"    {name} = {d['absval']:#x}\n")
        elif kind == "ifunc":
            s.append(f'    .section .text.{name},"ax",@progbits\n    .balign 8\n')
            s.append(self._decl(name, bind, "@gnu_indirect_function"))
            s.append(f"{name}:\n    lea {name}_impl(%rip), %rax\n    ret\n    .balign 8\n{name}_impl:\n    mov ${did << 8}, %eax\n    ret\n")
        elif kind == "str":
            s.append('    .section .rodata.str1.1,"aMS",@progbits,1\n')
            s.append(f'{name}:\n    .asciz "{STRINGS[d["sid"]]}"\n')
        return "".join(s)

    def _addr_code(self, s, t):
        """Code leaving the (addend-adjusted) address / value of the target in %rax. Returns
        (text_code, data_section_text)."""
        T, ref, n = t["name"], s["ref"], s["n"]
        cat = CAT[t["kind"]]
        A = 8 * s["k"]
        plus = f"+{A}" if A else ""
        data = ""
        if ref in DATA_SITE:
            sec = ".data.rel.ro" if s["ro"] else ".data"
            if ref in ("abs32d",) and s["ro"]:
                sec = ".rodata"
            fl = "a" if sec == ".rodata" else "aw"
            data = f'    .section {sec}.site{n},"{fl}",@progbits\n    .balign 8\nP{n}:\n'
        if ref == "abs64d":
            data += f"    .quad {T}{plus}\n"
            return f"    mov P{n}(%rip), %rax\n", data
        if ref == "abs32d":
            data += f"    .long {T}{plus}\n"
            return f"    mov P{n}(%rip), %eax\n", data
        if ref == "pc32d":
            data += f"    .long {T}{plus}-.\n"
            return f"    lea P{n}(%rip), %rax\n    movslq P{n}(%rip), %rcx\n    add %rcx, %rax\n", data
        if ref == "pc64":
            data += f"    .quad {T}{plus}-.\n"
            return f"    lea P{n}(%rip), %rax\n    add P{n}(%rip), %rax\n", data
        if ref == "abs64t":
            return f"    movabs ${T}{plus}, %rax\n", ""
        if ref == "abs32":
            return f"    mov ${T}{plus}, %eax\n", ""
        if ref == "abs32s":
            return f"    mov ${T}{plus}, %rax\n", ""
        if ref == "pc32":
            return f"    lea {T}{plus}(%rip), %rax\n", ""
        if ref == "gotoff64":
            return (f"    lea _GLOBAL_OFFSET_TABLE_(%rip), %rcx\n    movabs ${T}@GOTOFF{plus}, %rax\n"
                    f"    add %rcx, %rax\n"), ""
        add = f"    add ${A}, %rax\n" if A else ""
        if ref == "gotpcrel":
            return f"    pushq {T}@GOTPCREL(%rip)\n    pop %rax\n" + add, ""
        if ref == "gotpcrelx":
            return f"    movl {T}@GOTPCREL(%rip), %eax\n" + add, ""
        if ref == "got64":
            return (f"    lea _GLOBAL_OFFSET_TABLE_(%rip), %rcx\n    movabs ${T}@GOT, %rax\n"
                    f"    mov (%rax,%rcx), %rax\n") + add, ""
        if ref.startswith("rexgot_"):
            op = ref[7:]
            g = f"{T}@GOTPCREL(%rip)"
            if op == "mov":
                c = f"    mov {g}, %rax\n"
            elif op in ("add", "or", "xor"):
                c = f"    xor %eax, %eax\n    {op} {g}, %rax\n"
            elif op == "and":
                c = f"    mov $-1, %rax\n    and {g}, %rax\n"
            elif op == "adc":
                c = f"    xor %eax, %eax\n    clc\n    adc {g}, %rax\n"
            elif op in ("sub", "sbb"):
                c = f"    xor %eax, %eax\n    clc\n    {op} {g}, %rax\n    neg %rax\n"
            elif op == "cmp":
                c = f"    pushq {g}\n    pop %rcx\n    xor %eax, %eax\n    cmp {g}, %rcx\n    sete %al\n"
                return c, ""
            elif op == "test":
                # ZF := (addr & -1) == 0 ; address of a defined symbol is non-zero
                c = f"    mov $-1, %rcx\n    xor %eax, %eax\n    test %rcx, {g}\n    setne %al\n"
                if cat == "abs":
                    c = f"    pushq {g}\n    pop %rcx\n    xor %eax, %eax\n    test %rcx, {g}\n    setne %al\n"
                return c, ""
            return c + add, ""
        raise ValueError(ref)

    def _emit_site(self, s):
        t = self.defs[s["tgt"]]
        T, ref, n = t["name"], s["ref"], s["n"]
        cat = CAT[t["kind"]]
        A = 8 * s["k"]
        plus = f"+{A}" if A else ""
        head = f'    .section .text.site{n},"ax",@progbits\n    .globl site{n}\n    .type site{n},@function\nsite{n}:\n'
        data = ""
        if cat == "tls":
            if ref == "tpoff32m":
                body = f"    mov %fs:{T}@tpoff{plus}, %rax\n"
            elif ref == "tpoff32i":
                body = f"    mov ${T}@tpoff{plus}, %rax\n    mov %fs:(%rax), %rax\n"
            elif ref == "tpoff64d":
                sec = ".data.rel.ro" if s["ro"] else ".data"
                data = f'    .section {sec}.site{n},"aw",@progbits\n    .balign 8\nP{n}:\n    .quad {T}@tpoff{plus}\n'
                body = f"    mov P{n}(%rip), %rax\n    mov %fs:(%rax), %rax\n"
            elif ref == "gottpoff":
                body = f"    mov {T}@gottpoff(%rip), %rax\n    mov %fs:{A}(%rax), %rax\n"
            elif ref == "gottpoff_add":
                body = f"    mov %fs:0, %rax\n    add {T}@gottpoff(%rip), %rax\n    mov {A}(%rax), %rax\n"
            elif ref == "tlsgd":
                body = (f"    sub $8, %rsp\n    .byte 0x66\n    leaq {T}@tlsgd(%rip), %rdi\n    .value 0x6666\n    rex64\n"
                        f"    call __tls_get_addr@PLT\n    mov {A}(%rax), %rax\n    add $8, %rsp\n")
            elif ref == "tlsld":
                body = (f"    sub $8, %rsp\n    leaq {T}@tlsld(%rip), %rdi\n    call __tls_get_addr@PLT\n"
                        f"    mov {T}@dtpoff{plus}(%rax), %rax\n    add $8, %rsp\n")
            elif ref == "tlsdesc":
                body = (f"    sub $8, %rsp\n    leaq {T}@tlsdesc(%rip), %rax\n    call *{T}@tlscall(%rax)\n"
                        f"    mov %fs:{A}(%rax), %rax\n    add $8, %rsp\n")
            else:
                raise ValueError(ref)
            return head + body + "    ret\n" + data
        if ref == "call":
            return head + f"    sub $8, %rsp\n    call {T}{plus}\n    add $8, %rsp\n    ret\n"
        if ref == "jmp":
            return head + f"    jmp {T}{plus}\n"
        if ref == "gotcall":
            if A:
                return head + f"    sub $8, %rsp\n    mov {T}@GOTPCREL(%rip), %rax\n    add ${A}, %rax\n    call *%rax\n    add $8, %rsp\n    ret\n"
            return head + f"    sub $8, %rsp\n    call *{T}@GOTPCREL(%rip)\n    add $8, %rsp\n    ret\n"
        if ref == "gotjmp":
            if A:
                return head + f"    mov {T}@GOTPCREL(%rip), %rax\n    add ${A}, %rax\n    jmp *%rax\n"
            return head + f"    jmp *{T}@GOTPCREL(%rip)\n"
        if ref == "viahelper":
            return head + f"    sub $8, %rsp\n    call vh_{T}@PLT\n    add $8, %rsp\n    ret\n"
        if ref == "pltoff64":
            return head + (f"    sub $8, %rsp\n    lea _GLOBAL_OFFSET_TABLE_(%rip), %rcx\n    movabs ${T}@PLTOFF, %rax\n"
                           f"    add %rcx, %rax\n" + (f"    add ${A}, %rax\n" if A else "") +
                           "    call *%rax\n    add $8, %rsp\n    ret\n")
        if ref == "abs32sm":
            return head + f"    mov {T}{plus}, %rax\n    ret\n"
        if ref == "pc32m":
            return head + f"    mov {T}{plus}(%rip), %rax\n    ret\n"
        code, data = self._addr_code(s, t)
        if ref in FLAG_OBS or cat in ("abs", "wundef"):
            return head + code + "    ret\n" + data
        if cat == "func":
            return head + "    sub $8, %rsp\n" + code + "    call *%rax\n    add $8, %rsp\n    ret\n" + data
        return head + code + "    mov (%rax), %rax\n    ret\n" + data

    def tu_source(self, tu):
        s = []
        for d in self.defs:
            if d["tu"] == tu:
                s.append(self._emit_def(d))
            if d["dup_tu"] == tu:
                s.append(self._emit_def(d, weak_copy=True))
        wund = set()
        for st_ in self.sites:
            if st_["tu"] == tu:
                t = self.defs[st_["tgt"]]
                if t["kind"] == "wundef" and t["name"] not in wund:
                    wund.add(t["name"])
                    s.append(f"    .weak {t['name']}\n")
                s.append(self._emit_site(st_))
        # init function: fills commons / tbss owned by this TU
        s.append(f'    .section .text.init{tu},"ax",@progbits\n    .globl init{tu}\n    .type init{tu},@function\ninit{tu}:\n')
        for d in self.defs:
            if d["tu"] != tu:
                continue
            if d["kind"] == "common":
                s.append(f"    mov {d['name']}@GOTPCREL(%rip), %rax\n")
            elif d["kind"] == "tbss":
                s.append(f"    mov %fs:0, %rax\n    add {d['name']}@gottpoff(%rip), %rax\n")
            else:
                continue
            for k in range(4):
                s.append(f"    movq ${(d['id'] << 8) | k}, {8 * k}(%rax)\n")
        s.append("    ret\n")
        s.append(NOTE_GNU_STACK)
        return "".join(s)

    def driver_source(self):
        s = ['    .section .text.vmain,"ax",@progbits\n    .globl vmain\n    .type vmain,@function\nvmain:\n    push %rbx\n']
        for tu in range(self.ntu):
            s.append(f"    call init{tu}@PLT\n")
        for st_ in self.sites:
            s.append(f"    call site{st_['n']}@PLT\n    mov %rax, %rsi\n    mov ${st_['n']}, %edi\n    call emit2@PLT\n")
        s.append(f"    mov ${self.expected_rc()}, %eax\n    pop %rbx\n    ret\n")
        s.append(NOTE_GNU_STACK)
        return "".join(s)

    def helper_source(self):
        s = []
        for d in self.defs:
            if d["kind"] == "hfunc":
                s.append(f'    .text\n    .balign 8\n    .globl {d["name"]}\n    .type {d["name"]},@function\n{d["name"]}:\n'
                         f"    mov ${d['id'] << 8}, %eax\n    ret\n    .balign 8\n    mov ${(d['id'] << 8) | 1}, %eax\n    ret\n"
                         f"    .size {d['name']}, .-{d['name']}\n")
            elif d["kind"] == "hdata":
                s.append(f'    .data\n    .balign 8\n    .globl {d["name"]}\n    .type {d["name"]},@object\n{d["name"]}:\n' +
                         "".join(f"    .quad {(d['id'] << 8) | k}\n" for k in range(4)) + f"    .size {d['name']}, 32\n")
            elif d["kind"] == "htls":
                s.append(f'    .section .tdata,"awT",@progbits\n    .balign 8\n    .globl {d["name"]}\n    .type {d["name"]},@object\n'
                         f'{d["name"]}:\n' + "".join(f"    .quad {(d['id'] << 8) | k}\n" for k in range(4)) +
                         f"    .size {d['name']}, 32\n")
        done = set()
        for st_ in self.sites:
            if st_["ref"] == "viahelper":
                T = self.defs[st_["tgt"]]["name"]
                if T not in done:
                    done.add(T)
                    s.append(f"    .text\n    .globl vh_{T}\n    .type vh_{T},@function\nvh_{T}:\n    jmp *{T}@GOTPCREL(%rip)\n")
        s.append(NOTE_GNU_STACK)
        return "".join(s)

    def emit(self, cwd):
        """Assembles all TUs (+ driver) into cwd. Returns {"objs": [...], "libs": [...]}; the helper
        shared library (if used) is linked by GNU ld and is the same file for every linker under test."""
        objs = []
        for tu in range(self.ntu):
            tools.asm(self.tu_source(tu), f"t{tu}.o", cwd=cwd)
            objs.append(f"t{tu}.o")
        tools.asm(self.driver_source(), "drv.o", cwd=cwd)
        objs.append("drv.o")
        libs = []
        if self.uses_helper():
            tools.asm(self.helper_source(), "helper.o", cwd=cwd)
            tools.must(tools.link("ld", ["-shared", "-o", "libvhelper.so", "-soname", "libvhelper.so", "helper.o"], cwd=cwd),
                       "linking helper library")
            libs = ["libvhelper.so", "-Wl,-rpath,$ORIGIN"]
        return {"objs": objs, "libs": libs}


def realise(spec, modes, rare_refs=(), allow_known=False):
    return Program(spec, modes, rare_refs, allow_known)


def program_strategy(max_defs=10, max_sites=12, def_kinds=None, ntu=(2, 4), binds=None):
    from hypothesis import strategies as st
    kinds = def_kinds or DEF_KINDS
    d = st.fixed_dictionaries({"tu": st.integers(0, 5), "kind": st.sampled_from(kinds), "bind": st.sampled_from(binds or BINDS),
                               "pad": st.integers(0, 2), "aux": st.integers(0, 23), "dup": st.sampled_from([0, 0, 0, 1, 2])})
    s = st.fixed_dictionaries({"tu": st.integers(0, 5), "ref": st.integers(0, 63), "tgt": st.integers(0, 39),
                               "k": st.integers(0, 3), "aux": st.integers(0, 15)})
    return st.fixed_dictionaries({"ntu": st.integers(*ntu), "defs": st.lists(d, min_size=3, max_size=max_defs),
                                  "sites": st.lists(s, min_size=min(5, max_sites), max_size=max_sites)})
