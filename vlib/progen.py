"""progen — x86-64 program generator and link/run shells shared by C01/C05/C27/C28.

Everything a generated program prints is layout independent: every definition carries a unique
ID, every reference site prints `(site_id, observed value)` through `emit2`, and the buffer is
written to stdout by `flush_out` at exit.  stdout + exit status is "the behaviour".

PUBLIC API (keep it small; other checks import this)
----------------------------------------------------
Shell layer (any generator can use it):
  MODES                      output kinds: "static" (freestanding _start, raw syscalls, no libc),
                             "static-libc", "static-pie", "pie", "dyn" (dynamic non-PIE), "shared"
                             (program in libprog.so, fixed main exe linked by GNU ld)
  runtime_objs(ctx, mode)    -> list of absolute paths of shell objects for that mode (cached per
                             worker under ctx.root): emit2/flush_out runtime + start or main shell.
                             The program must define `int vmain(void)`; its return value is the
                             exit status.  init/preinit/fini arrays are run by both shells.
  link_program(linker, mode, objs, out, ctx, opts=(), libs=(), cwd=None) -> tools.Result
                             links `objs` (+ shell objects) into `out` with linker in
                             {"wild","ld","lld"}; `opts` are ld-style options (wrapped in -Wl, when
                             the compiler driver is used); `libs` are extra shared libs / args.
  run_program(out, cwd, mode) -> (stdout, rc) ; raises Inconclusive on timeout
  behaviour(linker, mode, objs, ctx, tag, opts=(), libs=(), cwd=None)
                             -> ("ok", stdout, rc) | ("reject", stderr, rc) | ("crash", stderr, rc)
  wild_crashed(res)          -> True iff a tools.Result of wild shows a panic / signal

Site-program layer (reference kinds x symbol kinds, used by C01/C27/C28):
  program_strategy(modes, ...)   Hypothesis strategy of raw JSON specs valid for all `modes`
  realise(spec)                  -> Program (normalised; invalid combinations dropped by construction)
  Program.emit(cwd)              -> assembles; returns {"objs": [...], "helper_src": ...}
  Program.expected()             -> expected stdout text per the generator's own model
  Program.classes()              -> ["kind/symkind", ...] for histograms
See the section "Site programs" below for the spec format.
"""
import os

from . import tools
from .core import Inconclusive

MODES = ("static", "static-libc", "static-pie", "pie", "dyn", "shared")
PIC_MODES = ("static-pie", "pie", "shared")
LIBC_MODES = ("static-libc", "static-pie", "pie", "dyn", "shared")
DYNAMIC_MODES = ("pie", "dyn", "shared")

NOTE_GNU_STACK = '    .section .note.GNU-stack,"",@progbits\n'

# ------------------------------------------------------------------------------------------------
# Runtime + shells

RUNTIME_C = r"""
typedef unsigned long u64;
static char buf[1 << 16];
static u64 pos;
static void put(char c) { if (pos < sizeof buf) buf[pos++] = c; }
void emit2(u64 site, u64 v) {
    const char *h = "0123456789abcdef";
    for (int i = 28; i >= 0; i -= 4) put(h[(site >> i) & 15]);
    put(' ');
    for (int i = 60; i >= 0; i -= 4) put(h[(v >> i) & 15]);
    put('\n');
}
void flush_out(void) {
    u64 off = 0;
    while (off < pos) {
        long r;
        __asm__ volatile("syscall" : "=a"(r) : "a"(1), "D"(1), "S"(buf + off), "d"(pos - off)
                         : "rcx", "r11", "memory");
        if (r <= 0) break;
        off += r;
    }
    pos = 0;
}
"""

# Freestanding start: runs preinit/init arrays, vmain, fini array (forward order), flushes, exits.
# The array boundary symbols are provided by all three linkers for static links.
FREESTANDING_START_C = r"""
typedef void (*fn)(void);
extern fn __preinit_array_start[] __attribute__((weak, visibility("hidden")));
extern fn __preinit_array_end[] __attribute__((weak, visibility("hidden")));
extern fn __init_array_start[] __attribute__((weak, visibility("hidden")));
extern fn __init_array_end[] __attribute__((weak, visibility("hidden")));
extern fn __fini_array_start[] __attribute__((weak, visibility("hidden")));
extern fn __fini_array_end[] __attribute__((weak, visibility("hidden")));
extern int vmain(void);
extern void flush_out(void);
__attribute__((noreturn, used)) void vstart_c(void) {
    for (fn *p = __preinit_array_start; p < __preinit_array_end; p++) (*p)();
    for (fn *p = __init_array_start; p < __init_array_end; p++) (*p)();
    int rc = vmain();
    for (fn *p = __fini_array_end; p > __fini_array_start;) (*--p)();
    flush_out();
    __asm__ volatile("syscall" : : "a"(60), "D"(rc) : "rcx", "r11", "memory");
    for (;;) {}
}
__asm__(".globl _start\n.section .text._start,\"ax\",@progbits\n_start:\n xorl %ebp,%ebp\n andq $-16,%rsp\n call vstart_c\n");
"""

# libc shell: main calls vmain; output is flushed at the end of main and again (idempotent) from a
# destructor so that fini-array functions of the program can still emit.
LIBC_MAIN_C = r"""
extern int vmain(void);
extern void flush_out(void);
int main(void) { int rc = vmain(); flush_out(); return rc; }
"""

RT_FLAGS = ["-O1", "-ffreestanding", "-fno-stack-protector", "-fno-asynchronous-unwind-tables",
            "-fno-builtin", "-fcf-protection=none"]


def cache_dir(ctx):
    d = os.path.join(ctx.root, "progen-cache")
    os.makedirs(d, exist_ok=True)
    return d


def _cached_cc(ctx, name, src, flags):
    d = cache_dir(ctx)
    out = os.path.join(d, name)
    if not os.path.exists(out):
        tmp = out + ".tmp.o"
        tools.cc(src, tmp, flags=flags, cwd=d)
        os.rename(tmp, out)
    return out


def runtime_objs(ctx, mode):
    """Shell objects for `mode` (compiled once per worker)."""
    if mode == "static":
        return [_cached_cc(ctx, "start_fs.o", FREESTANDING_START_C, RT_FLAGS + ["-fno-pic"]),
                _cached_cc(ctx, "rt_nopic.o", RUNTIME_C, RT_FLAGS + ["-fno-pic"])]
    if mode in ("static-libc", "dyn"):
        return [_cached_cc(ctx, "main_nopic.o", LIBC_MAIN_C, ["-O1", "-fno-pic"]),
                _cached_cc(ctx, "rt_nopic.o", RUNTIME_C, RT_FLAGS + ["-fno-pic"])]
    if mode in ("static-pie", "pie"):
        return [_cached_cc(ctx, "main_pic.o", LIBC_MAIN_C, ["-O1", "-fPIE"]),
                _cached_cc(ctx, "rt_pic.o", RUNTIME_C, RT_FLAGS + ["-fPIC"])]
    if mode == "shared":
        # runtime lives in the shared object together with the program
        return [_cached_cc(ctx, "rt_pic.o", RUNTIME_C, RT_FLAGS + ["-fPIC"])]
    raise ValueError(mode)


MODE_CC_FLAG = {"static-libc": ["-static", "-no-pie"], "static-pie": ["-static-pie"], "pie": ["-pie"],
                "dyn": ["-no-pie"], "shared": ["-shared"]}


def _wl(opts):
    out = []
    for o in opts:
        out.append("-Wl," + o)
    return out


def link_program(linker, mode, objs, out, ctx, opts=(), libs=(), cwd=None, timeout=90):
    """Links objs + shell objects. For mode "shared": builds lib<out>.so with `linker` and a fixed
    main executable `out` with GNU ld that calls vmain from it."""
    rt = runtime_objs(ctx, mode)
    if mode == "static":
        return tools.link(linker, ["-o", out, *opts, *rt, *objs, *libs], cwd=cwd, timeout=timeout)
    if mode == "shared":
        so = out + ".so"
        r = tools.cc_link(linker, ["-shared", "-nostartfiles", "-o", so, *_wl(opts), *objs, *rt, *libs], cwd=cwd,
                          timeout=timeout)
        if r.rc != 0 or r.timed_out:
            return r
        main_o = _cached_cc(ctx, "main_pic.o", LIBC_MAIN_C, ["-O1", "-fPIE"])
        r2 = tools.cc_link("ld", ["-pie", "-o", out, main_o, so, *libs, "-Wl,-rpath,$ORIGIN"], cwd=cwd, timeout=timeout)
        if r2.rc != 0:
            # The fixed GNU ld step failing is attributed to the shared object under test only by
            # the caller (reference .so failing here is a harness problem).
            r2.err = "[main-exe link by GNU ld] " + r2.err
        return r2
    return tools.cc_link(linker, [*MODE_CC_FLAG[mode], "-o", out, *_wl(opts), *rt, *objs, *libs], cwd=cwd, timeout=timeout)


def run_program(out, cwd, timeout=20):
    path = out if os.path.isabs(out) else os.path.join(cwd, out)
    r = tools.run_exe(path, cwd=cwd, timeout=timeout)
    if r.timed_out:
        return ("timeout", -999)
    return (r.out, r.rc)


def wild_crashed(res):
    return res.rc < 0 or "panicked at" in res.err or res.rc == 101


def behaviour(linker, mode, objs, ctx, tag, opts=(), libs=(), cwd=None):
    """Link + run. Returns (status, text, rc): status "ok" (text = stdout), "reject" (linker
    diagnostic, text = stderr), "crash" (linker crashed/timed out)."""
    cwd = cwd or ctx.dir
    out = f"{tag}.out"
    r = link_program(linker, mode, objs, out, ctx, opts=opts, libs=libs, cwd=cwd)
    if r.timed_out:
        return ("crash", "timeout", -999)
    if r.rc != 0:
        if linker == "wild" and wild_crashed(r):
            return ("crash", r.err[-1500:], r.rc)
        return ("reject", r.err[-1500:], r.rc)
    so, rc = run_program(out, cwd)
    return ("ok", so, rc)
