"""Executable model of wild's parallel string-merge hand-off (libwild/src/string_merging.rs:
`try_spawn_input_processing`, `ReusePool::{try_reserve, unreserve, return_strings_to_merge}`,
`process_input_section_group`, `work_with_bucket`) plus a validator for the hook event log.

G input groups, B hash buckets (16 in the code; parameter here), pool capacity B*P. Atomic steps:
the load and the compare-exchange of try_reserve are separate steps; each slot mutex critical
section is one step; each fetch_add is one step.
"""

OK = "ok"
MUT_NO_RESPAWN = "no-respawn-after-return"          # try_spawn_input_processing omitted after return_strings_to_merge
MUT_SLOT_NONATOMIC = "slot-store-then-check-waiter"  # slot read and slot store in separate critical sections
MUT_ADVANCE_EARLY = "advance-before-take"            # bucket advances its group index before taking the slot
VARIANTS = [OK, MUT_NO_RESPAWN, MUT_SLOT_NONATOMIC, MUT_ADVANCE_EARLY]

EMPTY, WAITING, STRINGS = 0, 1, 2


class ModelViolation(Exception):
    pass


class Model:
    def __init__(self, G, B, P, variant=OK):
        self.G, self.B, self.P, self.variant = G, B, P, variant
        self.capacity = B * P
        self.available = self.capacity
        self.unprocessed = list(range(G))
        self.slots = [[(EMPTY, None) for _ in range(B)] for _ in range(G)]
        self.next_index = [0] * B
        self.consumed = [[] for _ in range(B)]
        self.finished = []
        self.tasks = {}
        self.next_tid = 0
        self.steps = 0
        self.stats = {"reserve_fail_cas": 0, "reserve_fail_low": 0, "waits": 0, "resumes": 0, "inputs": 0}
        for b in range(B):
            self.slots[0][b] = (WAITING, b)
        self._spawn(self._try_spawn())

    def _spawn(self, gen):
        self.tasks[self.next_tid] = gen
        self.next_tid += 1

    def _try_spawn(self):
        # Abstraction: in the code this loop can keep reserving and spawning no-op input tasks
        # (which find `unprocessed` empty and unreserve at once) for as long as they finish faster
        # than the loop spins; that race is finite with probability 1 but makes the schedule tree
        # infinite. The model allows one such no-op spawn per call, which keeps every state the
        # invariants talk about reachable.
        noop_spawns = 0
        while True:
            if noop_spawns >= 1:
                return
            yield
            seen = self.available                # load
            if seen < self.B:
                self.stats["reserve_fail_low"] += 1
                return
            yield
            if self.available != seen:            # compare_exchange failed
                self.stats["reserve_fail_cas"] += 1
                return
            self.available = seen - self.B
            if not self.unprocessed:
                noop_spawns += 1
            self._spawn(self._input_task(self.B))

    def _input_task(self, remaining):
        yield
        if self.unprocessed:
            g = self.unprocessed.pop(0)
            self.stats["inputs"] += 1
            remaining = 0  # takes one vec per bucket
            for b in range(self.B):
                yield
                if self.variant == MUT_SLOT_NONATOMIC:
                    prev = self.slots[g][b]
                    yield
                    self.slots[g][b] = (STRINGS, None)
                else:
                    prev = self.slots[g][b]
                    self.slots[g][b] = (STRINGS, None)
                if prev[0] == STRINGS:
                    raise ModelViolation(f"slot ({g},{b}) filled twice")
                if prev[0] == WAITING:
                    self.stats["resumes"] += 1
                    self._spawn(self._bucket_task(prev[1]))
        yield
        self.available += remaining               # unreserve

    def _bucket_task(self, b):
        while self.next_index[b] < self.G:
            yield
            g = self.next_index[b]
            if self.variant == MUT_ADVANCE_EARLY:
                self.next_index[b] += 1
            state = self.slots[g][b]
            if state[0] != STRINGS:
                self.slots[g][b] = (WAITING, b)
                self.stats["waits"] += 1
                return
            self.slots[g][b] = (EMPTY, None)
            self.consumed[b].append(g)
            yield
            self.available += 1                   # return_strings_to_merge
            if self.variant != MUT_NO_RESPAWN:
                yield from self._try_spawn()
            if self.variant != MUT_ADVANCE_EARLY:
                self.next_index[b] += 1
        self.finished.append(b)

    def run(self, schedule):
        i = 0
        while self.tasks:
            tids = sorted(self.tasks)
            tid = tids[schedule[i] % len(tids)] if i < len(schedule) else tids[(i - len(schedule)) % len(tids)]
            i += 1
            self.steps += 1
            if self.steps > 500000:
                raise ModelViolation("no termination within step limit")
            try:
                next(self.tasks[tid])
            except StopIteration:
                del self.tasks[tid]
        self.check_final()

    def check_final(self):
        if self.unprocessed:
            raise ModelViolation(f"stalled: {len(self.unprocessed)} input groups never processed (no runnable task left)")
        if sorted(self.finished) != list(range(self.B)):
            raise ModelViolation(f"only buckets {sorted(self.finished)} finished of {self.B}")
        for b in range(self.B):
            if self.consumed[b] != list(range(self.G)):
                raise ModelViolation(f"bucket {b} consumed groups {self.consumed[b]}, expected 0..{self.G - 1} once each in order")
        if self.available != self.capacity:
            raise ModelViolation(f"pool not restored: available {self.available} of {self.capacity}")


def enumerate_schedules(make_model, max_states=100000):
    """Exhaustive depth-first enumeration of all schedules of a small configuration by
    re-execution (odometer over the choice vector; memory O(depth)). Returns (runs, exhaustive?).
    Raises ModelViolation with `.schedule` attached."""
    runs = 0
    prefix = []
    while True:
        m = make_model()
        choices = []
        i = 0
        try:
            while m.tasks:
                tids = sorted(m.tasks)
                c = prefix[i] if i < len(prefix) else 0
                choices.append((c, len(tids)))
                i += 1
                m.steps += 1
                try:
                    next(m.tasks[tids[c]])
                except StopIteration:
                    del m.tasks[tids[c]]
            m.check_final()
        except ModelViolation as e:
            e.schedule = [x for x, _ in choices]
            raise
        runs += 1
        if runs >= max_states:
            return runs, False
        pos = len(choices) - 1
        while pos >= 0 and choices[pos][0] + 1 >= choices[pos][1]:
            pos -= 1
        if pos < 0:
            return runs, True
        prefix = [x for x, _ in choices[:pos]] + [choices[pos][0] + 1]


class TraceError(Exception):
    pass


def validate_merge_trace(events, nbuckets=16):
    """Validates the string-merge events of a hook event log (all phases, ordered by sequence
    number) against the model's transition rules. Output sections are merged one after another;
    each ends with a `merge-quiescent` event, after which the per-section state starts afresh."""
    stats = {"waits": 0, "resumes": 0, "takes": 0, "reserve_fail": 0, "reserve_fail_cas": 0, "inputs": 0, "groups": 0,
             "sections": 0, "events": 0}

    def fresh():
        return {"slots": {}, "nxt": [0] * nbuckets, "finished": set(), "reserved": 0, "returned": 0, "unreserved": 0,
                "inputs": set()}
    s = fresh()
    open_section = False
    for (seq, kind, a, b, t) in events:
        if kind not in ("slot-put", "bucket-take", "bucket-wait", "bucket-finished", "reserve-ok", "reserve-fail",
                        "unreserve", "return-vec", "input-start", "merge-quiescent"):
            continue
        stats["events"] += 1
        open_section = True
        slots, nxt = s["slots"], s["nxt"]
        if kind == "slot-put":
            prev, new = b & 0xf, b >> 4
            have = slots.get(a, EMPTY)
            if prev != have:
                raise TraceError(f"seq {seq}: slot {a // nbuckets},{a % nbuckets} held state {have} but the writer saw {prev}")
            if new == STRINGS and prev == STRINGS:
                raise TraceError(f"seq {seq}: slot {a} filled twice")
            slots[a] = new
            if new == STRINGS and prev == WAITING:
                stats["resumes"] += 1
        elif kind == "bucket-take":
            if b != nxt[a]:
                raise TraceError(f"seq {seq}: bucket {a} took group {b}, expected group {nxt[a]} (order/exactly-once broken)")
            idx = b * nbuckets + a
            if slots.get(idx, EMPTY) != STRINGS:
                raise TraceError(f"seq {seq}: bucket {a} took strings of group {b} from a slot in state {slots.get(idx, EMPTY)}")
            slots[idx] = EMPTY
            nxt[a] += 1
            stats["takes"] += 1
        elif kind == "bucket-wait":
            if b != nxt[a]:
                raise TraceError(f"seq {seq}: bucket {a} waits on group {b}, expected {nxt[a]}")
            idx = b * nbuckets + a
            if slots.get(idx, EMPTY) == STRINGS:
                raise TraceError(f"seq {seq}: bucket {a} parked although strings of group {b} were present")
            slots[idx] = WAITING
            stats["waits"] += 1
        elif kind == "bucket-finished":
            if a in s["finished"]:
                raise TraceError(f"seq {seq}: bucket {a} finished twice")
            s["finished"].add(a)
            if b != nxt[a]:
                raise TraceError(f"seq {seq}: bucket {a} finished at group index {b} having taken {nxt[a]} groups")
        elif kind == "reserve-ok":
            s["reserved"] += b
        elif kind == "reserve-fail":
            stats["reserve_fail"] += 1
            stats["reserve_fail_cas"] += b
        elif kind == "unreserve":
            s["unreserved"] += a
        elif kind == "return-vec":
            s["returned"] += 1
        elif kind == "input-start":
            if a in s["inputs"]:
                raise TraceError(f"seq {seq}: input group {a} processed twice")
            s["inputs"].add(a)
            stats["inputs"] += 1
        elif kind == "merge-quiescent":
            stats["sections"] += 1
            stats["groups"] = max(stats["groups"], a)
            if len(s["finished"]) != nbuckets:
                raise TraceError(f"quiescent with {len(s['finished'])} of {nbuckets} buckets finished")
            for bk in range(nbuckets):
                if nxt[bk] != a:
                    raise TraceError(f"bucket {bk} consumed {nxt[bk]} of {a} input groups")
            if len(s["inputs"]) != a:
                raise TraceError(f"{len(s['inputs'])} of {a} input groups were processed")
            if s["reserved"] != s["unreserved"] + s["returned"]:
                raise TraceError(f"pool accounting: reserved {s['reserved']}, unreserved {s['unreserved']} + returned {s['returned']}")
            s = fresh()
            open_section = False
    stats["unterminated_section"] = open_section
    return stats
