"""Helpers for history / file-system properties (C18, C19, C21, C24, C25): directory snapshots,
running a command and waiting for *all* of its descendants (wild's forked worker keeps running
after the parent has exited), running as an unprivileged user, strace wrappers."""
import hashlib
import os
import re
import select
import signal
import stat
import subprocess
import time

from . import core
from .core import Inconclusive
from .tools import Result

NOBODY = 65534


def sha256_file(path):
    h = hashlib.sha256()
    with open(path, "rb") as f:
        while True:
            b = f.read(1 << 20)
            if not b:
                break
            h.update(b)
    return h.hexdigest()


def entry(path):
    """State of one path (not following a final symlink), or None if nothing is there.
    Compared field by field; `nlink`/`ctime` are deliberately absent (hard-linking an input into a
    save directory changes them without touching the file)."""
    try:
        st = os.lstat(path)
    except FileNotFoundError:
        return None
    except NotADirectoryError:
        return None
    rec = {"ino": st.st_ino, "mode": st.st_mode, "mtime_ns": st.st_mtime_ns}
    if stat.S_ISREG(st.st_mode):
        rec["t"] = "f"
        rec["size"] = st.st_size
        try:
            rec["sha"] = sha256_file(path)
        except PermissionError:
            rec["sha"] = "unreadable"
    elif stat.S_ISLNK(st.st_mode):
        rec["t"] = "l"
        rec["target"] = os.readlink(path)
    elif stat.S_ISDIR(st.st_mode):
        rec["t"] = "d"
    else:
        rec["t"] = "o"
    return rec


def snapshot(root):
    """{relative path: entry} for everything under root (root itself is ".")."""
    out = {".": entry(root)}
    for dp, dns, fns in os.walk(root, followlinks=False):
        for n in dns + fns:
            p = os.path.join(dp, n)
            out[os.path.relpath(p, root)] = entry(p)
    return out


def same_entry(a, b, ignore_dir_mtime=True):
    if a is None or b is None:
        return a is b
    if a["t"] != b["t"]:
        return False
    if a["t"] == "d" and ignore_dir_mtime:
        return a["ino"] == b["ino"] and a["mode"] == b["mode"]
    return a == b


def describe_change(a, b):
    if a is None:
        return "created"
    if b is None:
        return "deleted"
    diffs = [k for k in sorted(set(a) | set(b)) if a.get(k) != b.get(k)]
    return "changed:" + ",".join(diffs)


def clean_env(extra=None, path="/usr/bin:/bin"):
    env = {"PATH": path, "WILD_VALIDATE_OUTPUT": "0", "LC_ALL": "C"}
    if extra:
        env.update(extra)
    return env


def run_all(cmd, cwd=None, env=None, timeout=180, user=None, stdin_data=None, settle=60):
    """Runs cmd (env is the *complete* environment) in its own session and returns a Result once
    the process AND every descendant that inherited our marker pipe have exited (wild's forked
    worker performs deletions and shutdown work after the parent has reported success)."""
    r, w = os.pipe()
    kw = {}
    if user is not None:
        kw.update(user=user, group=user, extra_groups=[])
    try:
        p = subprocess.Popen(cmd, cwd=cwd, env=env if env is not None else clean_env(),
                             stdout=subprocess.PIPE, stderr=subprocess.PIPE,
                             stdin=subprocess.PIPE if stdin_data is not None else subprocess.DEVNULL,
                             start_new_session=True, pass_fds=[w], **kw)
    except OSError as e:
        os.close(r)
        os.close(w)
        raise Inconclusive(f"cannot start {cmd[0]}: {e}")
    os.close(w)
    timed_out = False
    try:
        out, err = p.communicate(stdin_data, timeout=timeout)
    except subprocess.TimeoutExpired:
        timed_out = True
        try:
            os.killpg(p.pid, signal.SIGKILL)
        except ProcessLookupError:
            pass
        out, err = p.communicate()
    # Wait for every descendant: EOF on the marker pipe.
    deadline = time.time() + settle
    leftover = False
    while True:
        left = deadline - time.time()
        if left <= 0:
            leftover = True
            break
        rl, _, _ = select.select([r], [], [], left)
        if rl:
            if os.read(r, 1) == b"":
                break
    os.close(r)
    if leftover:
        try:
            os.killpg(p.pid, signal.SIGKILL)
        except ProcessLookupError:
            pass
        raise Inconclusive(f"descendants of {cmd[0]} still alive {settle}s after it exited")
    res = Result(p.returncode, out.decode("utf-8", "replace"), err.decode("utf-8", "replace"), timed_out)
    return res


def wild(args, cwd, env_extra=None, timeout=180, user=None, exe=None):
    return run_all([exe or core.WILD, *args], cwd=cwd, env=clean_env(env_extra), timeout=timeout, user=user)


def crashed(res):
    """True if the process died from a signal or panicked (never acceptable as a 'diagnosed' failure
    for these properties only where the injected fault itself is a panic)."""
    return res.rc < 0 or "panicked at" in res.err


def rust_with_extension(path, ext):
    """Python model of Rust's Path::with_extension for the final component."""
    d, name = os.path.split(path)
    if name in ("", ".", ".."):
        return path
    # file_stem: the name without the final '.ext', except that a leading dot alone is not an
    # extension separator.
    idx = name.rfind(".")
    stem = name if idx <= 0 else name[:idx]
    new = stem + ("." + ext if ext else "")
    return os.path.join(d, new) if d else new


OPEN_RE = re.compile(
    r'^(?P<pid>\d+)\s+(?P<call>open|openat|openat2)\((?P<args>.*)\)\s+=\s+(?P<ret>-?\d+)(?:\s+(?P<errno>E\w+).*)?$')
STR_RE = re.compile(r'"((?:[^"\\]|\\.)*)"')


def _unescape_strace(s):
    # strace -xx is not used; default escaping uses C escapes and octal.
    return bytes(s, "latin-1").decode("unicode_escape").encode("latin-1").decode("utf-8", "replace")


def parse_strace_opens(text):
    """Parses `strace -f -e trace=open,openat,openat2 -o file` output (with unfinished/resumed
    lines). Returns list of (path, flags_text, ret)."""
    pending = {}
    out = []
    for line in text.splitlines():
        m = re.match(r"^(\d+)\s+(.*)$", line)
        if not m:
            continue
        pid, rest = m.group(1), m.group(2)
        if rest.endswith("<unfinished ...>"):
            pending[pid] = rest[: -len("<unfinished ...>")].rstrip()
            continue
        mm = re.match(r"^<\.\.\. (\w+) resumed>(.*)$", rest)
        if mm:
            if pid in pending:
                rest = pending.pop(pid) + mm.group(2)
            else:
                continue
        m2 = OPEN_RE.match(pid + " " + rest)
        if not m2:
            continue
        args = m2.group("args")
        sm = STR_RE.search(args)
        if not sm:
            continue
        path = _unescape_strace(sm.group(1))
        flags = args[sm.end():]
        out.append((path, flags, int(m2.group("ret"))))
    return out


STAT_RE = re.compile(
    r'^(?P<pid>\d+)\s+(?P<call>stat|lstat|newfstatat|statx)\((?P<args>.*)\)\s+=\s+(?P<ret>-?\d+)(?:\s+(?P<errno>E\w+).*)?$')


def parse_strace_stats(text):
    """Paths successfully stat'ed (stat, lstat, newfstatat, statx with a path argument) in the output of
    `strace -f -e trace=...,stat,lstat,newfstatat,statx -o file`."""
    pending = {}
    out = []
    for line in text.splitlines():
        m = re.match(r"^(\d+)\s+(.*)$", line)
        if not m:
            continue
        pid, rest = m.group(1), m.group(2)
        if rest.endswith("<unfinished ...>"):
            pending[pid] = rest[: -len("<unfinished ...>")].rstrip()
            continue
        mm = re.match(r"^<\.\.\. (\w+) resumed>(.*)$", rest)
        if mm:
            if pid in pending:
                rest = pending.pop(pid) + mm.group(2)
            else:
                continue
        m2 = STAT_RE.match(pid + " " + rest)
        if not m2 or int(m2.group("ret")) != 0:
            continue
        sm = STR_RE.search(m2.group("args"))
        if sm and sm.group(1):
            out.append(_unescape_strace(sm.group(1)))
    return out


class _SubCtx:
    def __init__(self, ctx, sub):
        self.check, self.tier, self.strict = ctx.check, ctx.tier, ctx.strict
        self.dir = os.path.join(ctx.dir, sub)
        os.makedirs(self.dir)


def retry_environmental(fn):
    """Decorator for run_case: a harness-level hiccup of a heavily loaded machine (a helper tool killed
    or timed out) is retried up to twice in a fresh sub-directory before the case is declared
    inconclusive. Verdicts (Violation / Discard / OracleSplit) are never retried."""
    def wrapper(self, case, ctx):
        last = None
        for attempt in range(3):
            try:
                return fn(self, case, _SubCtx(ctx, f"a{attempt}"))
            except Inconclusive as e:
                last = e
                time.sleep(1 + attempt)
        raise last
    return wrapper
