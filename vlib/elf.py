"""Independent, minimal ELF64 little-endian reader used by the oracles (no dependency on wild)."""
import struct

SHT_NULL, SHT_PROGBITS, SHT_SYMTAB, SHT_STRTAB, SHT_RELA, SHT_HASH, SHT_DYNAMIC, SHT_NOTE = range(8)
SHT_NOBITS, SHT_REL, SHT_SHLIB, SHT_DYNSYM = 8, 9, 10, 11
SHT_INIT_ARRAY, SHT_FINI_ARRAY, SHT_PREINIT_ARRAY, SHT_GROUP, SHT_SYMTAB_SHNDX, SHT_RELR = 14, 15, 16, 17, 18, 19
SHT_GNU_HASH, SHT_GNU_VERDEF, SHT_GNU_VERNEED, SHT_GNU_VERSYM = 0x6ffffff6, 0x6ffffffd, 0x6ffffffe, 0x6fffffff
SHF_WRITE, SHF_ALLOC, SHF_EXECINSTR, SHF_MERGE, SHF_STRINGS = 1, 2, 4, 0x10, 0x20
SHF_INFO_LINK, SHF_LINK_ORDER, SHF_GROUP, SHF_TLS, SHF_COMPRESSED = 0x40, 0x80, 0x200, 0x400, 0x800
SHF_GNU_RETAIN = 0x200000
PT_NULL, PT_LOAD, PT_DYNAMIC, PT_INTERP, PT_NOTE, PT_SHLIB, PT_PHDR, PT_TLS = range(8)
PT_GNU_EH_FRAME, PT_GNU_STACK, PT_GNU_RELRO, PT_GNU_PROPERTY = 0x6474e550, 0x6474e551, 0x6474e552, 0x6474e553
PF_X, PF_W, PF_R = 1, 2, 4
ET_REL, ET_EXEC, ET_DYN = 1, 2, 3
EM_X86_64, EM_AARCH64 = 62, 183
SHN_UNDEF, SHN_ABS, SHN_COMMON, SHN_XINDEX = 0, 0xfff1, 0xfff2, 0xffff
STB_LOCAL, STB_GLOBAL, STB_WEAK, STB_GNU_UNIQUE = 0, 1, 2, 10
STT_NOTYPE, STT_OBJECT, STT_FUNC, STT_SECTION, STT_FILE, STT_COMMON, STT_TLS, STT_GNU_IFUNC = 0, 1, 2, 3, 4, 5, 6, 10
DT_NULL, DT_NEEDED, DT_PLTRELSZ, DT_PLTGOT, DT_HASH, DT_STRTAB, DT_SYMTAB, DT_RELA, DT_RELASZ, DT_RELAENT = range(10)
DT_STRSZ, DT_SYMENT, DT_INIT, DT_FINI, DT_SONAME, DT_RPATH, DT_SYMBOLIC = 10, 11, 12, 13, 14, 15, 16
DT_JMPREL, DT_BIND_NOW, DT_INIT_ARRAY, DT_FINI_ARRAY, DT_INIT_ARRAYSZ, DT_FINI_ARRAYSZ = 23, 24, 25, 26, 27, 28
DT_RUNPATH, DT_FLAGS, DT_PREINIT_ARRAY, DT_PREINIT_ARRAYSZ = 29, 30, 32, 33
DT_RELRSZ, DT_RELR, DT_RELRENT = 35, 36, 37
DT_GNU_HASH, DT_VERSYM, DT_RELACOUNT, DT_FLAGS_1, DT_VERDEF, DT_VERDEFNUM, DT_VERNEED, DT_VERNEEDNUM = (
    0x6ffffef5, 0x6ffffff0, 0x6ffffff9, 0x6ffffffb, 0x6ffffffc, 0x6ffffffd, 0x6ffffffe, 0x6fffffff)
R_X86_64_RELATIVE, R_X86_64_IRELATIVE, R_X86_64_GLOB_DAT, R_X86_64_JUMP_SLOT, R_X86_64_64 = 8, 37, 6, 7, 1
R_X86_64_COPY, R_X86_64_DTPMOD64, R_X86_64_DTPOFF64, R_X86_64_TPOFF64, R_X86_64_TLSDESC = 5, 16, 17, 18, 36
R_AARCH64_RELATIVE, R_AARCH64_IRELATIVE = 1027, 1032


class ElfError(Exception):
    pass


class Section:
    __slots__ = ("index", "name", "type", "flags", "addr", "offset", "size", "link", "info",
                 "addralign", "entsize", "name_off")

    def __repr__(self):
        return (f"<{self.index}:{self.name} type={self.type:#x} flags={self.flags:#x} addr={self.addr:#x} "
                f"off={self.offset:#x} size={self.size:#x} align={self.addralign}>")

    @property
    def end(self):
        return self.addr + self.size


class Segment:
    __slots__ = ("index", "type", "flags", "offset", "vaddr", "paddr", "filesz", "memsz", "align")

    def __repr__(self):
        return (f"<PH{self.index} type={self.type:#x} flags={self.flags} off={self.offset:#x} "
                f"vaddr={self.vaddr:#x} filesz={self.filesz:#x} memsz={self.memsz:#x} align={self.align:#x}>")


class Symbol:
    __slots__ = ("index", "name", "info", "other", "shndx", "value", "size")

    @property
    def bind(self):
        return self.info >> 4

    @property
    def type(self):
        return self.info & 0xf

    @property
    def vis(self):
        return self.other & 3

    @property
    def defined(self):
        return self.shndx != SHN_UNDEF

    def __repr__(self):
        return (f"<sym {self.name} val={self.value:#x} size={self.size} bind={self.bind} type={self.type} "
                f"vis={self.vis} shndx={self.shndx}>")


class Rela:
    __slots__ = ("offset", "type", "sym", "addend")

    def __repr__(self):
        return f"<rela off={self.offset:#x} type={self.type} sym={self.sym} addend={self.addend}>"


def cstr(data, off):
    end = data.find(b"\0", off)
    if end < 0:
        raise ElfError("unterminated string")
    return data[off:end].decode("latin-1")


class Elf:
    def __init__(self, data):
        if isinstance(data, str):
            with open(data, "rb") as f:
                data = f.read()
        self.data = data
        if len(data) < 64 or data[:4] != b"\x7fELF":
            raise ElfError("not ELF")
        if data[4] != 2 or data[5] != 1:
            raise ElfError("not ELF64 LE")
        (self.type, self.machine, self.version, self.entry, self.phoff, self.shoff, self.eflags,
         self.ehsize, self.phentsize, self.phnum, self.shentsize, self.shnum, self.shstrndx) = \
            struct.unpack_from("<HHIQQQIHHHHHH", data, 16)
        self.sections = []
        self.segments = []
        self._parse()

    def _parse(self):
        d = self.data
        shnum, shstrndx = self.shnum, self.shstrndx
        if self.shoff:
            if self.shoff + 64 > len(d):
                raise ElfError("shoff out of range")
            if shnum == 0 or shstrndx == SHN_XINDEX:
                s0 = struct.unpack_from("<IIQQQQIIQQ", d, self.shoff)
                if shnum == 0:
                    shnum = s0[5]
                if shstrndx == SHN_XINDEX:
                    shstrndx = s0[6]
            self.shnum_real = shnum
            self.shstrndx_real = shstrndx
            if self.shoff + shnum * 64 > len(d):
                raise ElfError("section header table out of file")
            for i in range(shnum):
                s = Section()
                (s.name_off, s.type, s.flags, s.addr, s.offset, s.size, s.link, s.info, s.addralign,
                 s.entsize) = struct.unpack_from("<IIQQQQIIQQ", d, self.shoff + i * 64)
                s.index = i
                s.name = None
                self.sections.append(s)
            if shstrndx >= shnum:
                raise ElfError("bad shstrndx")
            st = self.sections[shstrndx]
            strtab = d[st.offset:st.offset + st.size]
            for s in self.sections:
                s.name = cstr(strtab, s.name_off) if s.name_off < len(strtab) else "<bad>"
        if self.phoff:
            if self.phoff + self.phnum * 56 > len(d):
                raise ElfError("program header table out of file")
            for i in range(self.phnum):
                p = Segment()
                (p.type, p.flags, p.offset, p.vaddr, p.paddr, p.filesz, p.memsz, p.align) = \
                    struct.unpack_from("<IIQQQQQQ", d, self.phoff + i * 56)
                p.index = i
                self.segments.append(p)

    # --- sections -------------------------------------------------------------------------------
    def section(self, name):
        for s in self.sections:
            if s.name == name:
                return s
        return None

    def sections_named(self, name):
        return [s for s in self.sections if s.name == name]

    def section_data(self, s):
        if s.type == SHT_NOBITS:
            return b"\0" * s.size
        return self.data[s.offset:s.offset + s.size]

    def section_at(self, addr, alloc_only=True):
        for s in self.sections:
            if alloc_only and not (s.flags & SHF_ALLOC):
                continue
            if s.flags & SHF_TLS and s.type == SHT_NOBITS:
                continue
            if s.size and s.addr <= addr < s.addr + s.size:
                return s
        return None

    # --- memory image ---------------------------------------------------------------------------
    def loads(self):
        return [p for p in self.segments if p.type == PT_LOAD]

    def read(self, vaddr, n):
        """Reads n bytes of the link-time memory image at vaddr (zero-fill for bss)."""
        for p in self.loads():
            if p.vaddr <= vaddr and vaddr + n <= p.vaddr + p.memsz:
                off = vaddr - p.vaddr
                out = bytearray()
                if off < p.filesz:
                    out += self.data[p.offset + off:p.offset + min(p.filesz, off + n)]
                out += b"\0" * (n - len(out))
                return bytes(out)
        raise ElfError(f"address {vaddr:#x}+{n} not in any PT_LOAD")

    def read_u64(self, vaddr):
        return struct.unpack("<Q", self.read(vaddr, 8))[0]

    def read_u32(self, vaddr):
        return struct.unpack("<I", self.read(vaddr, 4))[0]

    def read_cstr(self, vaddr, limit=1 << 20):
        out = bytearray()
        while len(out) < limit:
            b = self.read(vaddr + len(out), 1)
            if b == b"\0":
                return bytes(out)
            out += b
        raise ElfError("unterminated string in image")

    def vaddr_to_off(self, vaddr):
        for p in self.loads():
            if p.vaddr <= vaddr < p.vaddr + p.filesz:
                return p.offset + vaddr - p.vaddr
        return None

    # --- symbols --------------------------------------------------------------------------------
    def _symtab(self, sec):
        if sec is None:
            return []
        d = self.data
        if sec.link >= len(self.sections):
            raise ElfError("symtab sh_link out of range")
        strs = self.section_data(self.sections[sec.link])
        out = []
        n = sec.size // 24
        for i in range(n):
            s = Symbol()
            name_off, s.info, s.other, s.shndx, s.value, s.size = struct.unpack_from(
                "<IBBHQQ", d, sec.offset + i * 24)
            s.index = i
            s.name = cstr(strs, name_off) if name_off < len(strs) else "<bad>"
            out.append(s)
        return out

    def symtab(self):
        if not hasattr(self, "_st"):
            self._st = self._symtab(next((s for s in self.sections if s.type == SHT_SYMTAB), None))
        return self._st

    def dynsym(self):
        if not hasattr(self, "_ds"):
            self._ds = self._symtab(next((s for s in self.sections if s.type == SHT_DYNSYM), None))
        return self._ds

    def sym(self, name, dyn=False):
        """First defined global-or-local symbol with this name, else None."""
        for s in (self.dynsym() if dyn else self.symtab()):
            if s.name == name and s.shndx != SHN_UNDEF:
                return s
        return None

    def syms_named(self, name, dyn=False):
        return [s for s in (self.dynsym() if dyn else self.symtab()) if s.name == name]

    def addr(self, name):
        s = self.sym(name)
        if s is None:
            raise ElfError(f"symbol {name} not found")
        return s.value

    # --- relocations ----------------------------------------------------------------------------
    def relas(self, sec):
        out = []
        d = self.data
        for i in range(sec.size // 24):
            r = Rela()
            r.offset, info, r.addend = struct.unpack_from("<QQq", d, sec.offset + i * 24)
            r.type = info & 0xffffffff
            r.sym = info >> 32
            out.append(r)
        return out

    def all_dyn_relas(self):
        out = []
        for s in self.sections:
            if s.type == SHT_RELA and (s.flags & SHF_ALLOC):
                out.extend(self.relas(s))
        return out

    def relr_places(self, sec=None):
        """Decodes SHT_RELR by the generic ABI rule; returns list of addresses."""
        if sec is None:
            sec = next((s for s in self.sections if s.type == SHT_RELR), None)
            if sec is None:
                return []
        places = []
        where = None
        d = self.data
        for i in range(sec.size // 8):
            (e,) = struct.unpack_from("<Q", d, sec.offset + i * 8)
            if e & 1 == 0:
                places.append(e)
                where = e + 8
            else:
                if where is None:
                    raise ElfError("RELR bitmap before any address entry")
                bits = e >> 1
                j = 0
                while bits:
                    if bits & 1:
                        places.append(where + 8 * j)
                    bits >>= 1
                    j += 1
                where += 8 * 63
        return places

    # --- dynamic --------------------------------------------------------------------------------
    def dynamic(self):
        sec = next((s for s in self.sections if s.type == SHT_DYNAMIC), None)
        out = []
        if sec is None:
            return out
        for i in range(sec.size // 16):
            tag, val = struct.unpack_from("<qQ", self.data, sec.offset + i * 16)
            out.append((tag, val))
            if tag == DT_NULL:
                break
        return out

    def dyn_strings(self):
        sec = next((s for s in self.sections if s.type == SHT_DYNAMIC), None)
        if sec is None:
            return b""
        return self.section_data(self.sections[sec.link])

    def needed(self):
        strs = self.dyn_strings()
        return [cstr(strs, v) for t, v in self.dynamic() if t == DT_NEEDED]

    def soname(self):
        strs = self.dyn_strings()
        for t, v in self.dynamic():
            if t == DT_SONAME:
                return cstr(strs, v)
        return None

    # --- notes ----------------------------------------------------------------------------------
    def notes(self, sec):
        """Returns [(name, type, desc bytes)] for a SHT_NOTE section. Alignment from sh_addralign."""
        d = self.section_data(sec)
        align = 8 if sec.addralign == 8 else 4
        out = []
        off = 0
        while off + 12 <= len(d):
            namesz, descsz, ntype = struct.unpack_from("<III", d, off)
            off += 12
            name = d[off:off + namesz]
            off += (namesz + 3) & ~3 if align == 4 else (namesz + 3) & ~3
            desc = d[off:off + descsz]
            off += (descsz + align - 1) & ~(align - 1)
            out.append((name.rstrip(b"\0").decode("latin-1"), ntype, desc))
        return out
