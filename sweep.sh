#!/bin/bash
# sweep.sh <seed> <ID>...: runs the quick tier of each listed check once, prints rc and wall per check.
seed=$1; shift
for id in "$@"; do
  s=$(date +%s)
  VERIF_SEED=$seed ./check $id --tier quick > /tmp/sweep-$id.log 2>&1
  rc=$?
  echo "$id rc=$rc wall=$(( $(date +%s) - s ))s $(grep -c KNOWN-FINDING /tmp/sweep-$id.log) known; $(grep -E '^VIOLATION|INCONCLUSIVE' /tmp/sweep-$id.log | head -2 | tr '\n' ' ' | cut -c1-200)"
done
