//! C29 — Alignment arithmetic is exact. Oracle: u128 reference arithmetic.
use crate::util::Opts;
use crate::util::Stats;
use crate::util::runner;
use libwild::verif::api;
use proptest::prelude::*;
use proptest::test_runner::TestCaseError;
use proptest::test_runner::TestError;
use serde_json::Value;
use serde_json::json;
use std::panic::catch_unwind;

const MAX_EXP: u8 = 16;

#[derive(Debug, Clone)]
pub enum Case {
    New { raw: u64 },
    Up { exp: u8, v: u64 },
    Down { exp: u8, v: u64 },
    Modulo { exp: u8, r: u64, v: u64 },
}

fn value_class(exp: u8, v: u64) -> &'static str {
    let a = 1u128 << exp;
    let v128 = u128::from(v);
    if v128 + 2 * a > u128::from(u64::MAX) {
        return "near_max";
    }
    if v == 0 {
        return "zero";
    }
    let near_pow2 = (0..64).any(|k| {
        let p = 1u128 << k;
        v128 + a >= p && v128 <= p + a
    });
    let aligned = v128 % a == 0;
    match (aligned, near_pow2) {
        (true, true) => "aligned_near_pow2",
        (true, false) => "aligned",
        (false, true) => "unaligned_near_pow2",
        (false, false) => "unaligned",
    }
}

fn any_value(exp: u8) -> impl Strategy<Value = u64> {
    let a = 1u64 << exp;
    prop_oneof![
        3 => any::<u64>(),
        2 => (0u32..64, -2i64..=2).prop_map(|(k, d)| (1u64 << k).wrapping_add(d as u64)),
        2 => (0u64..(1 << 20), -1i64..=1).prop_map(move |(m, d)| m.wrapping_mul(a).wrapping_add(d as u64)),
        2 => (0u64..(1 << 18)).prop_map(|j| u64::MAX - j),
        1 => (0u64..(1 << 47), -1i64..=1).prop_map(move |(m, d)| m.wrapping_mul(a).wrapping_add(d as u64)),
        1 => 0u64..70000,
    ]
}

fn case_strategy() -> impl Strategy<Value = Case> {
    prop_oneof![
        1 => prop_oneof![
            (0u32..64, -1i64..=1).prop_map(|(k, d)| (1u64 << k).wrapping_add(d as u64)),
            any::<u64>(),
            0u64..200000,
        ].prop_map(|raw| Case::New { raw }),
        3 => (0..=MAX_EXP).prop_flat_map(|exp| any_value(exp).prop_map(move |v| Case::Up { exp, v })),
        3 => (0..=MAX_EXP).prop_flat_map(|exp| any_value(exp).prop_map(move |v| Case::Down { exp, v })),
        5 => (0..=MAX_EXP).prop_flat_map(|exp| (any_value(exp), any_value(exp)).prop_map(move |(r, v)| Case::Modulo { exp, r, v })),
    ]
}

fn to_json(c: &Case) -> Value {
    // u64 values are written as strings: JSON consumers lose precision above 2^53.
    match c {
        Case::New { raw } => json!({"op": "new", "raw": raw.to_string()}),
        Case::Up { exp, v } => json!({"op": "up", "exp": exp, "v": v.to_string()}),
        Case::Down { exp, v } => json!({"op": "down", "exp": exp, "v": v.to_string()}),
        Case::Modulo { exp, r, v } => {
            json!({"op": "modulo", "exp": exp, "ref": r.to_string(), "v": v.to_string()})
        }
    }
}

fn from_json(j: &Value) -> Case {
    let u = |k: &str| j[k].as_str().unwrap().parse::<u64>().unwrap();
    let exp = j["exp"].as_u64().unwrap_or(0) as u8;
    match j["op"].as_str().unwrap() {
        "new" => Case::New { raw: u("raw") },
        "up" => Case::Up { exp, v: u("v") },
        "down" => Case::Down { exp, v: u("v") },
        _ => Case::Modulo {
            exp,
            r: u("ref"),
            v: u("v"),
        },
    }
}

/// Returns Err((signature, message)) on violation; Ok(class, nontrivial).
fn check(c: &Case) -> Result<(String, bool), (String, String)> {
    match *c {
        Case::New { raw } => {
            let expect_ok = raw.is_power_of_two() && raw <= (1 << MAX_EXP);
            let got = api::alignment_new(raw);
            let near = (0..64).any(|k| {
                let p = 1u128 << k;
                (u128::from(raw) + 1 >= p) && (u128::from(raw) <= p + 1)
            });
            match (expect_ok, got) {
                (true, Some(e)) => {
                    if api::alignment_value(e) != raw {
                        return Err((
                            "new-value".into(),
                            format!("Alignment::new({raw}) accepted but value() = {}", api::alignment_value(e)),
                        ));
                    }
                }
                (false, None) => {}
                (true, None) => {
                    return Err(("new-rejects-valid".into(), format!("Alignment::new({raw}) rejected a power of two <= 2^16")));
                }
                (false, Some(e)) => {
                    return Err((
                        "new-accepts-invalid".into(),
                        format!("Alignment::new({raw}) accepted (exponent {e}); only powers of two <= 2^16 may be accepted"),
                    ));
                }
            }
            Ok((format!("new/{}/{}", if expect_ok { "ok" } else { "err" }, if near { "near_pow2" } else { "far" }), near))
        }
        Case::Up { exp, v } => {
            let a = 1u128 << exp;
            let want = u128::from(v).div_ceil(a) * a;
            let cls = value_class(exp, v);
            if want > u128::from(u64::MAX) {
                // No representable answer exists: only a wrong in-range answer would be a defect,
                // and every u64 answer is wrong, so a panic is the only acceptable behaviour; a
                // wrapped value is recorded but the statement has no satisfiable demand here.
                let _ = catch_unwind(|| api::align_up(exp, v));
                return Ok((format!("up/{exp}/unrepresentable"), false));
            }
            let got = catch_unwind(|| api::align_up(exp, v))
                .map_err(|_| ("up-panic".to_string(), format!("align_up(2^{exp}, {v}) panicked; expected {want}")))?;
            if u128::from(got) != want {
                return Err(("up-value".into(), format!("align_up(2^{exp}, {v}) = {got}, expected {want}")));
            }
            Ok((format!("up/{exp}/{cls}"), cls != "aligned"))
        }
        Case::Down { exp, v } => {
            let a = 1u128 << exp;
            let want = u128::from(v) / a * a;
            let cls = value_class(exp, v);
            let got = catch_unwind(|| api::align_down(exp, v))
                .map_err(|_| ("down-panic".to_string(), format!("align_down(2^{exp}, {v}) panicked; expected {want}")))?;
            if u128::from(got) != want {
                return Err(("down-value".into(), format!("align_down(2^{exp}, {v}) = {got}, expected {want}")));
            }
            Ok((format!("down/{exp}/{cls}"), cls != "aligned"))
        }
        Case::Modulo { exp, r, v } => {
            let a = 1u128 << exp;
            let up = u128::from(v).div_ceil(a) * a;
            let want = up + (u128::from(r) % a);
            let cls = value_class(exp, v);
            let rcls = if u128::from(r) % a == 0 { "ref_aligned" } else { "ref_unaligned" };
            if want > u128::from(u64::MAX) {
                let _ = catch_unwind(|| api::align_modulo(exp, r, v));
                return Ok((format!("modulo/{exp}/unrepresentable"), false));
            }
            let got = catch_unwind(|| api::align_modulo(exp, r, v)).map_err(|_| {
                ("modulo-panic".to_string(), format!("align_modulo(2^{exp}, ref={r}, {v}) panicked; expected {want}"))
            })?;
            if u128::from(got) != want {
                return Err((
                    "modulo-value".into(),
                    format!("align_modulo(2^{exp}, ref={r}, {v}) = {got}, expected {want} (smallest x >= align_up(v) with x = ref mod 2^{exp})"),
                ));
            }
            Ok((format!("modulo/{exp}/{cls}/{rcls}"), cls != "aligned" || rcls == "ref_unaligned"))
        }
    }
}

fn boundary_values(exp: u8) -> Vec<u64> {
    let a = 1u64 << exp;
    let mut v = vec![0, 1, a.wrapping_sub(1), a, a + 1, u64::MAX, u64::MAX - 1];
    for k in 0..64 {
        for d in [-1i64, 0, 1] {
            v.push((1u64 << k).wrapping_add(d as u64));
        }
    }
    for j in 0..=(2 * a).min(300) {
        v.push(u64::MAX - j);
        v.push(u64::MAX - 2 * a + j.min(2 * a));
    }
    for m in [1u64, 2, 3, 1000, (1 << 40) + 1] {
        for d in [-1i64, 0, 1] {
            v.push(m.wrapping_mul(a).wrapping_add(d as u64));
        }
    }
    v.sort_unstable();
    v.dedup();
    v
}

pub fn run(opts: &Opts) -> Value {
    std::panic::set_hook(Box::new(|_| {}));
    let mut stats = Stats::default();
    if let Some(j) = &opts.replay {
        let c = from_json(j);
        if let Err((sig, msg)) = check(&c) {
            stats.violation(&sig, msg, j.clone());
        }
        stats.evaluations = 1;
        return stats.to_json();
    }

    // Phase 1: exhaustive boundary classes for all 17 alignments.
    let mut boundary = 0u64;
    'outer: for exp in 0..=MAX_EXP {
        let vals = boundary_values(exp);
        for &v in &vals {
            for c in [Case::Up { exp, v }, Case::Down { exp, v }] {
                boundary += 1;
                match check(&c) {
                    Ok((cls, nt)) => {
                        stats.count(&cls);
                        stats.eval(nt.then(|| format!("{:?}", c)));
                    }
                    Err((sig, msg)) => {
                        stats.violation(&sig, msg, to_json(&c));
                        break 'outer;
                    }
                }
            }
            // Reference values: a reduced boundary set.
            for &r in &[0u64, 1, (1 << exp) - 1, 1 << exp, (1 << exp) + 1, u64::MAX, 0x123456, v] {
                let c = Case::Modulo { exp, r, v };
                boundary += 1;
                match check(&c) {
                    Ok((cls, nt)) => {
                        stats.count(&cls);
                        stats.eval(nt.then(|| format!("{:?}", c)));
                    }
                    Err((sig, msg)) => {
                        stats.violation(&sig, msg, to_json(&c));
                        break 'outer;
                    }
                }
            }
        }
    }
    for k in 0..64u32 {
        for d in [-1i64, 0, 1] {
            let raw = (1u64 << k).wrapping_add(d as u64);
            let c = Case::New { raw };
            boundary += 1;
            match check(&c) {
                Ok((cls, nt)) => {
                    stats.count(&cls);
                    stats.eval(nt.then(|| format!("{:?}", c)));
                }
                Err((sig, msg)) => stats.violation(&sig, msg, to_json(&c)),
            }
        }
    }
    stats.extra.insert("boundary_cases_exhaustive".into(), json!(boundary));
    if !stats.violations.is_empty() {
        return stats.to_json();
    }

    // Phase 2: seeded random sampling with shrinking.
    let mut r = runner(opts.seed, opts.cases);
    let result = {
        let stats = std::cell::RefCell::new(&mut stats);
        r.run(&case_strategy(), |c| {
            let mut s = stats.borrow_mut();
            match check(&c) {
                Ok((cls, nt)) => {
                    s.count(&cls);
                    s.eval(nt.then(|| format!("{:?}", c)));
                    if s.samples.len() < 4 || s.evaluations % 100_003 == 7 {
                        s.sample(to_json(&c));
                    }
                    Ok(())
                }
                Err((sig, msg)) => {
                    s.frozen = true;
                    Err(TestCaseError::fail(format!("{sig}\u{1}{msg}")))
                }
            }
        })
    };
    if let Err(TestError::Fail(reason, c)) = result {
        let text = reason.message().to_string();
        let (sig, msg) = text.split_once('\u{1}').unwrap_or(("unknown", &text));
        stats.violation(sig, msg.to_string(), to_json(&c));
    }
    stats.to_json()
}
