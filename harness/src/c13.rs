//! C13 — Instruction immediate fields are encoded exactly and locally.
//!
//! Oracle: field tables written from the architecture manuals (Arm ARM C4/C6 encodings, RISC-V
//! unprivileged spec immediate variants incl. RVC, LoongArch reference manual formats) and, for the
//! relocation-type tier, the psABI definitions "field <- bits [hi:lo] of X" (AArch64 ELF psABI
//! 5.7, RISC-V psABI relocation table, LoongArch psABI relocation table).  None of wild's encoders,
//! masks or `read_value` are used by the oracle.
//!
//! Two tiers:
//!  A. every `AArch64Instruction` / `RiscVInstruction` / `LoongArch64Instruction` variant through
//!     `RelocationInstruction::write_to_value(extracted_value, negative, dest)` with
//!     `extracted_value` inside the caller contract (already reduced to the field width);
//!  B. every relocation type whose `RelocationSize` is `BitMasking` through
//!     `RelocationKindInfo::write_to_buffer(value, dest)` (only judged when wild accepts the value).
//!
//! Clauses (statement): (1) locality `(out ^ w0) & !MAY == 0` and bytes after the window untouched;
//! (2) history independence `write(v, w0) == write(v, w0 ^ (r & MUST))`; (3) exactness
//! `out & MUST == scatter(expected immediate)`, where `gather(scatter(i)) == i` is self-tested, so
//! decoding the instruction gives back the written value.
use crate::util::Opts;
use crate::util::Stats;
use crate::util::runner;
use linker_utils::elf::AArch64Instruction as A;
use linker_utils::elf::LoongArch64Instruction as L;
use linker_utils::elf::RelocationInstruction as RI;
use linker_utils::elf::RelocationKindInfo;
use linker_utils::elf::RelocationSize;
use linker_utils::elf::RiscVInstruction as R;
use proptest::prelude::*;
use proptest::test_runner::TestCaseError;
use proptest::test_runner::TestError;
use serde_json::Value;
use serde_json::json;
use std::panic::AssertUnwindSafe;
use std::panic::catch_unwind;

// ------------------------------------------------------------------------------------------------
// Reference field tables (mine, from the manuals).

/// Field class: one architectural immediate field layout.
#[derive(Clone, Copy, Debug, PartialEq, Eq)]
enum Fc {
    /// ADR/ADRP: immlo [30:29], immhi [23:5]; logical = imm21.
    A64Adr,
    /// MOVZ/MOVK/MOVN imm16 [20:5].
    A64Mov16,
    /// MOVN/MOVZ selected by the relocation: imm16 [20:5] + opc<1> (bit 30: 1 = MOVZ, 0 = MOVN);
    /// logical = imm16 | z << 16.  opc<0> (bit 29) may be written (it is 0 for both), not required.
    A64MovNZ,
    /// imm19 [23:5]: LDR (literal), B.cond, CBZ/CBNZ.
    A64Imm19,
    /// imm12 [21:10]: ADD/SUB (immediate), LDR/STR (unsigned offset).
    A64Imm12,
    /// TBZ/TBNZ imm14 [18:5].
    A64Tb14,
    /// B/BL imm26 [25:0].
    A64Br26,
    /// U-type imm[31:12] at [31:12]; logical = 20 bits.
    RvU,
    /// I-type imm[11:0] at [31:20].
    RvI,
    /// S-type imm[4:0] at [11:7], imm[11:5] at [31:25].
    RvS,
    /// B-type; logical = byte offset bits [12:1] (bit 0 ignored).
    RvB,
    /// J-type; logical = byte offset bits [20:1].
    RvJ,
    /// CB-type (c.beqz/c.bnez); logical = byte offset bits [8:1].
    RvCb,
    /// CJ-type (c.j/c.jal); logical = byte offset bits [11:1].
    RvCj,
    /// C.LUI nzimm[17:12]: nzimm[17] at 12, nzimm[16:12] at [6:2]; logical = 6 bits.
    RvClui,
    /// AUIPC + JALR pair (8-byte window): logical = hi20 | lo12 << 20.
    RvUi,
    /// LoongArch si20 [24:5].
    LaSi20,
    /// LoongArch si12 [21:10].
    LaSi12,
    /// LoongArch offs16 [25:10].
    LaOffs16,
    /// LoongArch offs21: offs[15:0] at [25:10], offs[20:16] at [4:0].
    LaOffs21,
    /// LoongArch offs26: offs[15:0] at [25:10], offs[25:16] at [9:0].
    LaOffs26,
    /// pcaddu18i + jirl (8-byte window): logical = si20 | offs16 << 20.
    LaCall36,
    /// pcaddu12i + jirl (8-byte window): logical = si20 | X[11:2] << 20; only jirl [19:10] is
    /// required, the rest of offs16 may be written.
    LaCall30,
}

const ALL_FC: &[Fc] = &[
    Fc::A64Adr, Fc::A64Mov16, Fc::A64MovNZ, Fc::A64Imm19, Fc::A64Imm12, Fc::A64Tb14, Fc::A64Br26, Fc::RvU, Fc::RvI,
    Fc::RvS, Fc::RvB, Fc::RvJ, Fc::RvCb, Fc::RvCj, Fc::RvClui, Fc::RvUi, Fc::LaSi20, Fc::LaSi12, Fc::LaOffs16,
    Fc::LaOffs21, Fc::LaOffs26, Fc::LaCall36, Fc::LaCall30,
];

fn bits(v: u64, hi: u32, lo: u32) -> u64 {
    (v >> lo) & (u64::MAX >> (63 - (hi - lo)))
}

fn ones(n: u32) -> u64 {
    if n >= 64 { u64::MAX } else { (1u64 << n) - 1 }
}

impl Fc {
    /// Window size in bytes.
    fn window(self) -> usize {
        match self {
            Fc::RvCb | Fc::RvCj | Fc::RvClui => 2,
            Fc::RvUi | Fc::LaCall36 | Fc::LaCall30 => 8,
            _ => 4,
        }
    }

    /// Width of the logical immediate.
    fn width(self) -> u32 {
        match self {
            Fc::A64Adr => 21,
            Fc::A64Mov16 => 16,
            Fc::A64MovNZ => 17,
            Fc::A64Imm19 => 19,
            Fc::A64Imm12 => 12,
            Fc::A64Tb14 => 14,
            Fc::A64Br26 => 26,
            Fc::RvU => 20,
            Fc::RvI | Fc::RvS => 12,
            Fc::RvB => 13,
            Fc::RvJ => 21,
            Fc::RvCb => 9,
            Fc::RvCj => 12,
            Fc::RvClui => 6,
            Fc::RvUi => 32,
            Fc::LaSi20 => 20,
            Fc::LaSi12 => 12,
            Fc::LaOffs16 => 16,
            Fc::LaOffs21 => 21,
            Fc::LaOffs26 => 26,
            Fc::LaCall36 => 36,
            Fc::LaCall30 => 30,
        }
    }

    /// True if bit 0 of the logical immediate is not encoded (byte offsets of 2-aligned targets).
    fn drops_bit0(self) -> bool {
        matches!(self, Fc::RvB | Fc::RvJ | Fc::RvCb | Fc::RvCj)
    }

    /// Logical immediate -> window bits.
    fn scatter(self, i: u64) -> u64 {
        match self {
            Fc::A64Adr => bits(i, 1, 0) << 29 | bits(i, 20, 2) << 5,
            Fc::A64Mov16 => bits(i, 15, 0) << 5,
            Fc::A64MovNZ => bits(i, 15, 0) << 5 | bits(i, 16, 16) << 30,
            Fc::A64Imm19 => bits(i, 18, 0) << 5,
            Fc::A64Imm12 => bits(i, 11, 0) << 10,
            Fc::A64Tb14 => bits(i, 13, 0) << 5,
            Fc::A64Br26 => bits(i, 25, 0),
            Fc::RvU => bits(i, 19, 0) << 12,
            Fc::RvI => bits(i, 11, 0) << 20,
            Fc::RvS => bits(i, 4, 0) << 7 | bits(i, 11, 5) << 25,
            Fc::RvB => bits(i, 11, 11) << 7 | bits(i, 4, 1) << 8 | bits(i, 10, 5) << 25 | bits(i, 12, 12) << 31,
            Fc::RvJ => bits(i, 19, 12) << 12 | bits(i, 11, 11) << 20 | bits(i, 10, 1) << 21 | bits(i, 20, 20) << 31,
            Fc::RvCb => {
                bits(i, 5, 5) << 2 | bits(i, 2, 1) << 3 | bits(i, 7, 6) << 5 | bits(i, 4, 3) << 10 | bits(i, 8, 8) << 12
            }
            Fc::RvCj => {
                bits(i, 5, 5) << 2
                    | bits(i, 3, 1) << 3
                    | bits(i, 7, 7) << 6
                    | bits(i, 6, 6) << 7
                    | bits(i, 10, 10) << 8
                    | bits(i, 9, 8) << 9
                    | bits(i, 4, 4) << 11
                    | bits(i, 11, 11) << 12
            }
            Fc::RvClui => bits(i, 4, 0) << 2 | bits(i, 5, 5) << 12,
            Fc::RvUi => bits(i, 19, 0) << 12 | bits(i, 31, 20) << (32 + 20),
            Fc::LaSi20 => bits(i, 19, 0) << 5,
            Fc::LaSi12 => bits(i, 11, 0) << 10,
            Fc::LaOffs16 => bits(i, 15, 0) << 10,
            Fc::LaOffs21 => bits(i, 15, 0) << 10 | bits(i, 20, 16),
            Fc::LaOffs26 => bits(i, 15, 0) << 10 | bits(i, 25, 16),
            Fc::LaCall36 => bits(i, 19, 0) << 5 | bits(i, 35, 20) << (32 + 10),
            Fc::LaCall30 => bits(i, 19, 0) << 5 | bits(i, 29, 20) << (32 + 10),
        }
    }

    /// Window bits -> logical immediate (the architectural decode of the field, unsigned).
    fn gather(self, w: u64) -> u64 {
        match self {
            Fc::A64Adr => bits(w, 30, 29) | bits(w, 23, 5) << 2,
            Fc::A64Mov16 => bits(w, 20, 5),
            Fc::A64MovNZ => bits(w, 20, 5) | bits(w, 30, 30) << 16,
            Fc::A64Imm19 => bits(w, 23, 5),
            Fc::A64Imm12 => bits(w, 21, 10),
            Fc::A64Tb14 => bits(w, 18, 5),
            Fc::A64Br26 => bits(w, 25, 0),
            Fc::RvU => bits(w, 31, 12),
            Fc::RvI => bits(w, 31, 20),
            Fc::RvS => bits(w, 11, 7) | bits(w, 31, 25) << 5,
            Fc::RvB => bits(w, 7, 7) << 11 | bits(w, 11, 8) << 1 | bits(w, 30, 25) << 5 | bits(w, 31, 31) << 12,
            Fc::RvJ => bits(w, 19, 12) << 12 | bits(w, 20, 20) << 11 | bits(w, 30, 21) << 1 | bits(w, 31, 31) << 20,
            Fc::RvCb => {
                bits(w, 2, 2) << 5 | bits(w, 4, 3) << 1 | bits(w, 6, 5) << 6 | bits(w, 11, 10) << 3 | bits(w, 12, 12) << 8
            }
            Fc::RvCj => {
                bits(w, 2, 2) << 5
                    | bits(w, 5, 3) << 1
                    | bits(w, 6, 6) << 7
                    | bits(w, 7, 7) << 6
                    | bits(w, 8, 8) << 10
                    | bits(w, 10, 9) << 8
                    | bits(w, 11, 11) << 4
                    | bits(w, 12, 12) << 11
            }
            Fc::RvClui => bits(w, 6, 2) | bits(w, 12, 12) << 5,
            Fc::RvUi => bits(w, 31, 12) | bits(w, 63, 52) << 20,
            Fc::LaSi20 => bits(w, 24, 5),
            Fc::LaSi12 => bits(w, 21, 10),
            Fc::LaOffs16 => bits(w, 25, 10),
            Fc::LaOffs21 => bits(w, 25, 10) | bits(w, 4, 0) << 16,
            Fc::LaOffs26 => bits(w, 25, 10) | bits(w, 9, 0) << 16,
            Fc::LaCall36 => bits(w, 24, 5) | bits(w, 32 + 25, 32 + 10) << 20,
            Fc::LaCall30 => bits(w, 24, 5) | bits(w, 32 + 19, 32 + 10) << 20,
        }
    }

    /// Bits whose content is determined by the value.
    fn must(self) -> u64 {
        self.scatter(ones(self.width()))
    }

    /// Bits the write is allowed to change.
    fn may(self) -> u64 {
        match self {
            Fc::A64MovNZ => self.must() | 1 << 29,
            Fc::LaCall30 => self.must() | 0xffffu64 << (32 + 10),
            _ => self.must(),
        }
    }

    /// Valid initial encodings of the instruction class: (base, fixed_mask); the non-fixed bits are
    /// random (registers, condition codes, size bits and the immediate field itself).
    fn templates(self) -> &'static [(u64, u64)] {
        match self {
            // ADR / ADRP: op immlo 10000 immhi Rd
            Fc::A64Adr => &[(0x1000_0000, 0x1f00_0000)],
            // sf opc 100101 hw imm16 Rd
            Fc::A64Mov16 | Fc::A64MovNZ => &[(0x1280_0000, 0x1f80_0000)],
            // LDR literal: opc 011 V 00 imm19 Rt; B.cond: 0101010 0 imm19 0 cond; CBZ: sf 011010 op imm19 Rt
            Fc::A64Imm19 => &[(0x1800_0000, 0x3b00_0000), (0x5400_0000, 0xff00_0010), (0x3400_0000, 0x7e00_0000)],
            // ADD/SUB imm: sf op S 100010 sh imm12 Rn Rd; LDR/STR unsigned offset: size 111 V 01 opc imm12 Rn Rt
            Fc::A64Imm12 => &[(0x1100_0000, 0x1f80_0000), (0x3900_0000, 0x3b00_0000)],
            // b5 011011 op b40 imm14 Rt
            Fc::A64Tb14 => &[(0x3600_0000, 0x7e00_0000)],
            // op 00101 imm26
            Fc::A64Br26 => &[(0x1400_0000, 0x7c00_0000)],
            Fc::RvU => &[(0x37, 0x7f), (0x17, 0x7f)],
            Fc::RvI => &[(0x03, 0x7f), (0x13, 0x7f), (0x67, 0x7f)],
            Fc::RvS => &[(0x23, 0x7f)],
            Fc::RvB => &[(0x63, 0x7f)],
            Fc::RvJ => &[(0x6f, 0x7f)],
            // c.beqz 110 / c.bnez 111, op 01
            Fc::RvCb => &[(0xc001, 0xc003)],
            // c.j 101 op 01
            Fc::RvCj => &[(0xa001, 0xe003)],
            // c.lui 011 op 01
            Fc::RvClui => &[(0x6001, 0xe003)],
            Fc::RvUi => &[(0x17 | 0x67 << 32, 0x7f | 0x7f << 32)],
            // lu12i.w, lu32i.d, pcaddi, pcalau12i, pcaddu12i, pcaddu18i
            Fc::LaSi20 => &[
                (0x1400_0000, 0xfe00_0000),
                (0x1600_0000, 0xfe00_0000),
                (0x1800_0000, 0xfe00_0000),
                (0x1a00_0000, 0xfe00_0000),
                (0x1c00_0000, 0xfe00_0000),
                (0x1e00_0000, 0xfe00_0000),
            ],
            // addi.d, ld.d, st.d, ori
            Fc::LaSi12 => &[
                (0x02c0_0000, 0xffc0_0000),
                (0x28c0_0000, 0xffc0_0000),
                (0x29c0_0000, 0xffc0_0000),
                (0x0380_0000, 0xffc0_0000),
            ],
            // beq, bne, jirl
            Fc::LaOffs16 => &[(0x5800_0000, 0xfc00_0000), (0x5c00_0000, 0xfc00_0000), (0x4c00_0000, 0xfc00_0000)],
            // beqz, bnez
            Fc::LaOffs21 => &[(0x4000_0000, 0xfc00_0000), (0x4400_0000, 0xfc00_0000)],
            // b, bl
            Fc::LaOffs26 => &[(0x5000_0000, 0xfc00_0000), (0x5400_0000, 0xfc00_0000)],
            Fc::LaCall36 => &[(0x1e00_0000 | 0x4c00_0000 << 32, 0xfe00_0000 | 0xfc00_0000 << 32)],
            Fc::LaCall30 => &[(0x1c00_0000 | 0x4c00_0000 << 32, 0xfe00_0000 | 0xfc00_0000 << 32)],
        }
    }
}

fn self_test() -> Result<(), String> {
    for &fc in ALL_FC {
        let w = fc.width();
        let must = fc.must();
        let win = ones(8 * fc.window() as u32);
        if must & !win != 0 || fc.may() & !win != 0 || must & !fc.may() != 0 {
            return Err(format!("{fc:?}: masks outside the window"));
        }
        if must.count_ones() != w - u32::from(fc.drops_bit0()) {
            return Err(format!("{fc:?}: scatter is not injective on the field width"));
        }
        let mut x = 0x9e37_79b9_7f4a_7c15u64;
        for k in 0..2000u64 {
            x = x.wrapping_mul(6364136223846793005).wrapping_add(1442695040888963407 + k);
            let mut i = (x >> 7) & ones(w);
            if fc.drops_bit0() {
                i &= !1;
            }
            let s = fc.scatter(i);
            if s & !must != 0 || fc.gather(s) != i || fc.gather(s | !must) != i {
                return Err(format!("{fc:?}: gather(scatter({i:#x})) mismatch"));
            }
        }
        for &(base, fixed) in fc.templates() {
            if base & !fixed != 0 || fixed & fc.may() != 0 || fixed & !win != 0 {
                return Err(format!("{fc:?}: template {base:#x}/{fixed:#x} overlaps the field"));
            }
        }
    }
    Ok(())
}

// ------------------------------------------------------------------------------------------------
// Tier A: instruction variants.

#[derive(Clone, Copy)]
struct Variant {
    arch: &'static str,
    name: &'static str,
    insn: RI,
    fc: Fc,
    /// Width of `extracted_value` guaranteed by callers (bit range of the relocation types that
    /// use this variant, which equals the architectural field width); 64 = whole value.
    ev_bits: u32,
}

fn variants() -> Vec<Variant> {
    let a = |name, i, fc: Fc, ev_bits| Variant { arch: "aarch64", name, insn: RI::AArch64(i), fc, ev_bits };
    let r = |name, i, fc: Fc, ev_bits| Variant { arch: "riscv64", name, insn: RI::RiscV(i), fc, ev_bits };
    let l = |name, i, fc: Fc, ev_bits| Variant { arch: "loongarch64", name, insn: RI::LoongArch64(i), fc, ev_bits };
    vec![
        a("Adr", A::Adr, Fc::A64Adr, 21),
        a("Movkz", A::Movkz, Fc::A64Mov16, 16),
        // 17: R_AARCH64_TLSGD_MOVW_G1 passes a 17-bit range; only the low 16 bits are the immediate.
        a("Movnz", A::Movnz, Fc::A64MovNZ, 17),
        a("Ldr", A::Ldr, Fc::A64Imm19, 19),
        a("LdrRegister", A::LdrRegister, Fc::A64Imm12, 12),
        a("Add", A::Add, Fc::A64Imm12, 12),
        a("LdSt", A::LdSt, Fc::A64Imm12, 12),
        a("TstBr", A::TstBr, Fc::A64Tb14, 14),
        a("Bcond", A::Bcond, Fc::A64Imm19, 19),
        a("JumpCall", A::JumpCall, Fc::A64Br26, 26),
        a("MachOLow12", A::MachOLow12, Fc::A64Imm12, 12),
        r("UiType", R::UiType, Fc::RvUi, 64),
        r("UType", R::UType, Fc::RvU, 64),
        r("IType", R::IType, Fc::RvI, 64),
        r("SType", R::SType, Fc::RvS, 64),
        r("BType", R::BType, Fc::RvB, 64),
        r("JType", R::JType, Fc::RvJ, 64),
        r("CbType", R::CbType, Fc::RvCb, 64),
        r("CjType", R::CjType, Fc::RvCj, 64),
        r("CluiType", R::CluiType, Fc::RvClui, 64),
        l("Shift5", L::Shift5, Fc::LaSi20, 20),
        l("Shift10", L::Shift10, Fc::LaSi12, 12),
        l("Branch21", L::Branch21, Fc::LaOffs21, 21),
        l("Branch26", L::Branch26, Fc::LaOffs26, 26),
        l("Call36", L::Call36, Fc::LaCall36, 36),
        // Call30 has no variant-level contract that can be stated independently of wild's table
        // (its bit range is part of the table): it is judged in tier B only (R_LARCH_CALL30).
    ]
}

/// Access-size scale of an AArch64 LDR/STR (immediate, unsigned offset) word, or 0 for ADD
/// (Arm ARM C6.2 LDR (immediate), C7.2 LDR (immediate, SIMD&FP)); None if `w` is neither.
fn a64_imm12_scale(w: u64) -> Option<u32> {
    if w & 0x3b00_0000 == 0x3900_0000 {
        let size = bits(w, 31, 30) as u32;
        let v = bits(w, 26, 26);
        let opc1 = bits(w, 23, 23);
        if size == 0 && v == 1 && opc1 == 1 { Some(4) } else { Some(size) }
    } else if w & 0x1f80_0000 == 0x1100_0000 {
        Some(0)
    } else {
        None
    }
}

/// Expected logical immediate for a tier-A call, from the manuals. None = no independent
/// expectation (exactness not judged).
fn variant_expected(v: &Variant, ev: u64, neg: bool, w0: u64) -> Option<u64> {
    Some(match v.insn {
        RI::AArch64(A::Movnz) => {
            let imm = if neg { !ev } else { ev } & 0xffff;
            imm | u64::from(!neg) << 16
        }
        RI::AArch64(A::MachOLow12) => ev >> a64_imm12_scale(w0)?,
        RI::AArch64(_) => ev,
        // %hi(x) = (x + 0x800) >> 12, %lo(x) = x[11:0] (RISC-V psABI, "Absolute Addresses").
        RI::RiscV(R::UType) => bits(ev.wrapping_add(0x800), 31, 12),
        RI::RiscV(R::CluiType) => bits(ev.wrapping_add(0x800), 17, 12),
        RI::RiscV(R::UiType) => bits(ev.wrapping_add(0x800), 31, 12) | bits(ev, 11, 0) << 20,
        RI::RiscV(R::IType | R::SType) => bits(ev, 11, 0),
        RI::RiscV(R::BType) => ev & 0x1ffe,
        RI::RiscV(R::JType) => ev & 0x1f_fffe,
        RI::RiscV(R::CbType) => ev & 0x1fe,
        RI::RiscV(R::CjType) => ev & 0xffe,
        // pcaddu18i adds sext(si20) << 18, jirl adds sext(offs16) << 2: with ev = X >> 2,
        // lo16 = ev[15:0], hi20 = (ev + 0x8000) >> 16 (ev is the 36-bit two's complement of X >> 2).
        RI::LoongArch64(L::Call36) => {
            let sx = ((ev << 28) as i64 >> 28) as u64;
            bits(sx.wrapping_add(0x8000), 35, 16) | bits(ev, 15, 0) << 20
        }
        RI::LoongArch64(L::Call30) => return None,
        RI::LoongArch64(_) => ev,
    })
}

// ------------------------------------------------------------------------------------------------
// Tier B: relocation types.

#[derive(Clone, Copy, Debug, PartialEq, Eq)]
enum K {
    /// field <- X[hi:lo]
    Plain,
    /// MOVN/MOVZ by sign: imm16 <- (X >= 0 ? X : ~X)[hi:lo], bit 30 <- X >= 0
    MovNZ,
    /// (X + 0x800)[31:12] resp. [17:12] for c.lui
    RvHi20,
    /// auipc+jalr pair
    RvCall,
    /// byte offset, bit 0 dropped
    RvOff,
    La36,
    La30,
}

#[derive(Clone, Copy, Debug)]
struct RRef {
    fc: Fc,
    lo: u32,
    hi: u32,
    k: K,
}

fn aarch64_ref(t: u32) -> Option<RRef> {
    let p = |fc, lo, hi| Some(RRef { fc, lo, hi, k: K::Plain });
    let nz = |lo, hi| Some(RRef { fc: Fc::A64MovNZ, lo, hi, k: K::MovNZ });
    let mk = |lo, hi| p(Fc::A64Mov16, lo, hi);
    let ldst = |lo| p(Fc::A64Imm12, lo, 11);
    match t {
        263 | 264 => mk(0, 15),
        265 | 266 => mk(16, 31),
        267 | 268 => mk(32, 47),
        269 => mk(48, 63),
        270 => nz(0, 15),
        271 => nz(16, 31),
        272 => nz(32, 47),
        273 => p(Fc::A64Imm19, 2, 20),
        274 => p(Fc::A64Adr, 0, 20),
        275 | 276 => p(Fc::A64Adr, 12, 32),
        277 => p(Fc::A64Imm12, 0, 11),
        278 => ldst(0),
        279 => p(Fc::A64Tb14, 2, 15),
        280 => p(Fc::A64Imm19, 2, 20),
        282 | 283 => p(Fc::A64Br26, 2, 27),
        284 => ldst(1),
        285 => ldst(2),
        286 => ldst(3),
        // MOVW_PREL_G0..G3 and MOVW_GOTOFF_G0..G3: non-NC -> MOV[NZ], NC -> MOVK
        287 | 300 => nz(0, 15),
        288 | 301 => mk(0, 15),
        289 | 302 => nz(16, 31),
        290 | 303 => mk(16, 31),
        291 | 304 => nz(32, 47),
        292 | 305 => mk(32, 47),
        293 | 306 => nz(48, 63),
        299 => ldst(4),
        309 => p(Fc::A64Imm19, 2, 20),
        310 | 313 => p(Fc::A64Imm12, 3, 14),
        311 => p(Fc::A64Adr, 12, 32),
        312 => ldst(3),
        // TLS GD
        512 => p(Fc::A64Adr, 0, 20),
        513 => p(Fc::A64Adr, 12, 32),
        514 => p(Fc::A64Imm12, 0, 11),
        515 => nz(16, 31),
        516 => mk(0, 15),
        // TLS LD
        517 => p(Fc::A64Adr, 0, 20),
        518 => p(Fc::A64Adr, 12, 32),
        519 => p(Fc::A64Imm12, 0, 11),
        520 => nz(16, 31),
        521 => mk(0, 15),
        522 => p(Fc::A64Imm19, 2, 20),
        523 => nz(32, 47),
        524 => nz(16, 31),
        525 => mk(16, 31),
        526 => nz(0, 15),
        527 => mk(0, 15),
        528 => p(Fc::A64Imm12, 12, 23),
        529 | 530 => p(Fc::A64Imm12, 0, 11),
        531 | 532 => ldst(0),
        533 | 534 => ldst(1),
        535 | 536 => ldst(2),
        537 | 538 => ldst(3),
        572 | 573 => ldst(4),
        // TLS IE
        539 => nz(16, 31),
        540 => mk(0, 15),
        541 => p(Fc::A64Adr, 12, 32),
        542 => ldst(3),
        543 => p(Fc::A64Imm19, 2, 20),
        // TLS LE
        544 => nz(32, 47),
        545 => nz(16, 31),
        546 => mk(16, 31),
        547 => nz(0, 15),
        548 => mk(0, 15),
        549 => p(Fc::A64Imm12, 12, 23),
        550 | 551 => p(Fc::A64Imm12, 0, 11),
        552 | 553 => ldst(0),
        554 | 555 => ldst(1),
        556 | 557 => ldst(2),
        558 | 559 => ldst(3),
        570 | 571 => ldst(4),
        // TLS descriptors
        560 => p(Fc::A64Imm19, 2, 20),
        561 => p(Fc::A64Adr, 0, 20),
        562 => p(Fc::A64Adr, 12, 32),
        563 => ldst(3),
        564 => p(Fc::A64Imm12, 0, 11),
        565 => nz(16, 31),
        566 => mk(0, 15),
        _ => None,
    }
}

fn riscv_ref(t: u32) -> Option<RRef> {
    let r = |fc, lo, hi, k| Some(RRef { fc, lo, hi, k });
    match t {
        16 => r(Fc::RvB, 1, 12, K::RvOff),
        17 => r(Fc::RvJ, 1, 20, K::RvOff),
        18 | 19 => r(Fc::RvUi, 0, 31, K::RvCall),
        20 | 21 | 22 | 23 | 26 | 29 => r(Fc::RvU, 12, 31, K::RvHi20),
        24 | 27 | 30 => r(Fc::RvI, 0, 11, K::Plain),
        25 | 28 | 31 => r(Fc::RvS, 0, 11, K::Plain),
        44 => r(Fc::RvCb, 1, 8, K::RvOff),
        45 => r(Fc::RvCj, 1, 11, K::RvOff),
        _ => None,
    }
}

fn loongarch_ref(t: u32) -> Option<RRef> {
    let p = |fc, lo, hi| Some(RRef { fc, lo, hi, k: K::Plain });
    match t {
        64 => p(Fc::LaOffs16, 2, 17),
        65 => p(Fc::LaOffs21, 2, 22),
        66 => p(Fc::LaOffs26, 2, 27),
        // *_HI20 -> si20 <- [31:12]
        67 | 71 | 75 | 79 | 83 | 87 | 91 | 95 | 96 | 97 | 98 | 111 | 115 | 121 | 128 | 130 | 132 | 134 | 136 | 138 => {
            p(Fc::LaSi20, 12, 31)
        }
        // *_LO12 -> si12 <- [11:0]
        68 | 72 | 76 | 80 | 84 | 88 | 92 | 112 | 116 | 123 | 129 | 131 | 133 | 135 | 137 | 139 => p(Fc::LaSi12, 0, 11),
        // *64_LO20 -> si20 <- [51:32]
        69 | 73 | 77 | 81 | 85 | 89 | 93 | 113 | 117 => p(Fc::LaSi20, 32, 51),
        // *64_HI12 -> si12 <- [63:52]
        70 | 74 | 78 | 82 | 86 | 90 | 94 | 114 | 118 => p(Fc::LaSi12, 52, 63),
        // *_PCREL20_S2 -> si20 <- [21:2]
        103 | 124 | 125 | 126 => p(Fc::LaSi20, 2, 21),
        110 => Some(RRef { fc: Fc::LaCall36, lo: 2, hi: 37, k: K::La36 }),
        127 => Some(RRef { fc: Fc::LaCall30, lo: 2, hi: 31, k: K::La30 }),
        _ => None,
    }
}

fn rtype_expected(r: &RRef, x: u64) -> u64 {
    match r.k {
        K::Plain => bits(x, r.hi, r.lo),
        K::MovNZ => {
            let neg = (x as i64) < 0;
            let y = if neg { !x } else { x };
            bits(y, r.hi, r.lo) | u64::from(!neg) << 16
        }
        K::RvHi20 => bits(x.wrapping_add(0x800), r.hi, r.lo),
        K::RvCall => bits(x.wrapping_add(0x800), 31, 12) | bits(x, 11, 0) << 20,
        K::RvOff => x & ones(r.hi + 1) & !1,
        // target = PC + (sext(si20) << 18) + (sext(offs16) << 2)
        K::La36 => bits(x.wrapping_add(0x2_0000), 37, 18) | bits(x, 17, 2) << 20,
        // pcaddu12i <- X[31:12], jirl[19:10] <- X[11:2] (LoongArch psABI, R_LARCH_CALL30)
        K::La30 => bits(x, 31, 12) | bits(x, 11, 2) << 20,
    }
}

#[derive(Clone)]
struct RType {
    arch: &'static str,
    r_type: u32,
    name: String,
    info: RelocationKindInfo,
    insn: RI,
    /// wild's bit range (used only to derive `extracted_value` when attributing a tier-B failure
    /// to a tier-A variant; never by the oracle).
    range: (u32, u32),
    rref: Option<RRef>,
}

fn rtypes() -> Vec<RType> {
    let mut out = Vec::new();
    let mut push = |arch: &'static str, t: u32, info: Option<RelocationKindInfo>, name: String, rref: Option<RRef>| {
        let name = match (arch, t) {
            ("loongarch64", 127) => "R_LARCH_CALL30".to_string(),
            _ if name.starts_with("Unknown") => format!("R_{arch}_{t}"),
            _ => name,
        };
        if let Some(info) = info
            && let RelocationSize::BitMasking(m) = info.size
        {
            out.push(RType { arch, r_type: t, name, info, insn: m.instruction, range: (m.range.start, m.range.end), rref });
        }
    };
    for t in 0..1100 {
        push(
            "aarch64",
            t,
            linker_utils::aarch64::relocation_type_from_raw(t),
            linker_utils::elf::aarch64_rel_type_to_string(t).into_owned(),
            aarch64_ref(t),
        );
    }
    for t in 0..300 {
        push(
            "riscv64",
            t,
            linker_utils::riscv64::relocation_type_from_raw(t),
            linker_utils::elf::riscv64_rel_type_to_string(t).into_owned(),
            riscv_ref(t),
        );
        push(
            "loongarch64",
            t,
            linker_utils::loongarch64::relocation_type_from_raw(t),
            linker_utils::elf::loongarch64_rel_type_to_string(t).into_owned(),
            loongarch_ref(t),
        );
    }
    out
}

// ------------------------------------------------------------------------------------------------
// Cases.

#[derive(Clone, Debug)]
pub struct Case {
    /// 0 = tier A (variant index), 1 = tier B (index into the relocation-type list).
    tier: u8,
    idx: usize,
    w0: u64,
    w0_class: &'static str,
    guard: u64,
    /// Random bits XORed into the MUST bits of w0 for the history-independence clause.
    alt: u64,
    /// Tier A: extracted_value; tier B: relocation value X.
    v: u64,
    v_class: &'static str,
    neg: bool,
}

struct World {
    variants: Vec<Variant>,
    rtypes: Vec<RType>,
}

impl World {
    fn fc_of(&self, c: &Case) -> Option<Fc> {
        if c.tier == 0 { Some(self.variants[c.idx].fc) } else { self.rtypes[c.idx].rref.map(|r| r.fc) }
    }

    fn variant_of_insn(&self, insn: RI) -> Option<&Variant> {
        self.variants.iter().find(|v| v.insn == insn)
    }

    fn label(&self, c: &Case) -> String {
        if c.tier == 0 {
            let v = &self.variants[c.idx];
            format!("{}/{}", v.arch, v.name)
        } else {
            let r = &self.rtypes[c.idx];
            format!("{}/{}", r.arch, r.name)
        }
    }
}

const W0_CLASSES: [&str; 5] = ["zero", "ones", "valid_zero_field", "valid", "random"];

fn make_w0(fc: Fc, class: usize, raw: u64, tmpl: usize) -> (u64, &'static str) {
    let win = ones(8 * fc.window() as u32);
    let t = fc.templates();
    let (base, fixed) = t[tmpl % t.len()];
    let w = match class {
        0 => 0,
        1 => win,
        2 => ((raw & !fixed) | base) & !fc.may() & win,
        3 => ((raw & !fixed) | base) & win,
        _ => raw & win,
    };
    (w, W0_CLASSES[class.min(4)])
}

const INTERESTING: [u64; 18] = [
    0x7ff, 0x800, 0x801, 0xfff, 0x1000, 0x7fff, 0x8000, 0x1_ffff, 0x2_0000, 0x7fff_f7ff, 0x7fff_f800, 0x7fff_ffff,
    0x8000_0000, 0xffff_f7ff, 0xffff_f800, 0xffff_ffff, 0x1_0000_0000, 0x7fff_ffff_ffff_ffff,
];

/// Tier A extracted values, always inside the contract width.
fn make_ev(w: u32, class: usize, raw: u64) -> (u64, &'static str) {
    if w == 64 {
        // RISC-V variants take the whole value.
        return match class {
            0 => (0, "zero"),
            1 => (u64::MAX, "minus_one"),
            2 => (INTERESTING[(raw % 18) as usize], "boundary"),
            3 => (INTERESTING[(raw % 18) as usize].wrapping_neg(), "neg_boundary"),
            4 => (1u64 << (raw % 33), "single_bit"),
            5 => ((raw as i32) as i64 as u64, "random_s32"),
            6 => (raw & 0xffff_ffff, "random_u32"),
            _ => (raw, "random_u64"),
        };
    }
    let m = ones(w);
    match class {
        0 => (0, "zero"),
        1 => (m, "all_ones"),
        2 => (1 << (w - 1), "sign_bit"),
        3 => (m >> 1, "max_positive"),
        4 => (1u64 << (raw % u64::from(w)), "single_bit"),
        5 => (m ^ (1u64 << (raw % u64::from(w))), "single_zero"),
        _ => (raw & m, "random"),
    }
}

/// Tier B relocation values around the boundaries of the field [hi:lo].
fn make_x(r: Option<&RRef>, wild_range: (u32, u32), class: usize, raw: u64, align: u64) -> (u64, &'static str) {
    let (lo, hi) = r.map_or((wild_range.0, wild_range.1.saturating_sub(1).max(wild_range.0)), |r| (r.lo, r.hi));
    let unit = 1u64 << lo;
    let top = if hi >= 63 { 1u64 << 63 } else { 1u64 << hi };
    let al = |v: u64| v & !(align.max(1) - 1);
    match class {
        0 => (0, "zero"),
        1 => (al(unit.max(align)), "one_unit"),
        2 => (al(unit.max(align).wrapping_neg()), "minus_one_unit"),
        3 => (al(top.wrapping_sub(unit)), "max_signed"),
        4 => (al(top), "sign_bit"),
        5 => (al(top.wrapping_neg()), "min_signed"),
        6 => (al(top.wrapping_mul(2).wrapping_sub(unit)), "max_unsigned"),
        7 => (al(INTERESTING[(raw % 18) as usize]), "boundary"),
        8 => (al(INTERESTING[(raw % 18) as usize].wrapping_neg()), "neg_boundary"),
        9 | 10 => {
            // random inside +-2^(hi+1)
            let span = if hi >= 62 { 63 } else { hi + 2 };
            let v = ((raw << (64 - span)) as i64 >> (64 - span)) as u64;
            (al(v), "random_in_field")
        }
        11 => (al(raw), "random_u64"),
        _ => (raw & ones(hi.min(62) + 1), "random_unaligned"),
    }
}

type Raw = (u8, u16, u8, u64, u8, u64, u64, u8, u64, bool);

fn raw_strategy() -> impl Strategy<Value = Raw> {
    (
        0u8..3,      // tier selector: 0 -> A, 1..2 -> B
        any::<u16>(), // index
        0u8..5,      // w0 class
        any::<u64>(), // w0 raw
        any::<u8>(),  // template
        any::<u64>(), // guard
        any::<u64>(), // alt
        0u8..14,     // value class
        any::<u64>(), // value raw
        any::<bool>(),
    )
}

fn materialise(world: &World, raw: &Raw, opts: &Opts, stats: &mut Stats) -> Case {
    let (tsel, idx, wc, wraw, tmpl, guard, alt, vc, vraw, neg) = *raw;
    let tier = u8::from(tsel != 0);
    let n = if tier == 0 { world.variants.len() } else { world.rtypes.len() };
    let idx = (usize::from(idx) * n) >> 16;
    let mut c = Case { tier, idx, w0: 0, w0_class: "zero", guard, alt, v: 0, v_class: "zero", neg };
    if tier == 0 {
        let v = &world.variants[idx];
        // MachOLow12 is defined on ADD / LDR / STR words only.
        let wc = if v.name == "MachOLow12" { 2 + (wc as usize % 2) } else { wc as usize };
        (c.w0, c.w0_class) = make_w0(v.fc, wc, wraw, tmpl as usize);
        (c.v, c.v_class) = make_ev(v.ev_bits, (vc % 8) as usize, vraw);
        if !matches!(v.insn, RI::AArch64(A::Movnz)) {
            c.neg = false;
        }
    } else {
        let r = &world.rtypes[idx];
        let fc = r.rref.map_or(Fc::A64Br26, |x| x.fc);
        (c.w0, c.w0_class) = make_w0(fc, wc as usize, wraw, tmpl as usize);
        (c.v, c.v_class) = make_x(r.rref.as_ref(), r.range, vc as usize, vraw, r.info.alignment as u64);
        c.neg = false;
    }
    apply_known_exclusions(world, &mut c, opts, stats);
    c
}

/// Known findings are excluded by construction: the exact domain of each is removed from the
/// generated case (and counted), the remaining clauses are still checked on it.
fn apply_known_exclusions(world: &World, c: &mut Case, opts: &Opts, stats: &mut Stats) {
    if opts.known.is_empty() {
        return;
    }
    let (insn, fc) = if c.tier == 0 {
        (world.variants[c.idx].insn, Some(world.variants[c.idx].fc))
    } else {
        (world.rtypes[c.idx].insn, world.fc_of(c))
    };
    let Some(fc) = fc else { return };
    if let Some(v) = world.variant_of_insn(insn) {
        // `<variant>:history` (field ORed without clearing): domain = non-zero initial field.
        let sig = format!("{}/{}:history", v.arch, v.name);
        if opts.is_known(&sig) && (c.w0 & fc.must() != 0 || c.alt & fc.must() != 0) {
            c.w0 &= !fc.must();
            c.alt &= !fc.must();
            stats.count(&format!("excluded_known/{sig}"));
        }
        // `aarch64/Movnz:locality` (sf and the fixed opcode bits are overwritten with those of a
        // 64-bit MOVZ/MOVN): domain = initial word that is not already a 64-bit MOV wide immediate.
        if v.name == "Movnz" && opts.is_known("aarch64/Movnz:locality") && (c.w0 ^ 0x9280_0000) & 0x9f80_0000 != 0 {
            c.w0 = (c.w0 & !0x9f80_0000) | 0x9280_0000;
            stats.count("excluded_known/aarch64/Movnz:locality");
        }
        // `loongarch64/Call36:locality` (carry of the +0x8000 rounding leaves the 20-bit field):
        // domain = carry out of bit 35 and bit 25 of pcaddu18i clear in the initial word.
        if v.name == "Call36" && opts.is_known("loongarch64/Call36:locality") && c.w0 & (1 << 25) == 0 {
            let ev = if c.tier == 0 { c.v } else { bits(c.v, 37, 2) };
            if bits(ev.wrapping_add(0x8000), 36, 36) == 1 {
                c.w0 |= 1 << 25;
                stats.count("excluded_known/loongarch64/Call36:locality");
            }
        }
    }
    // `loongarch64/R_LARCH_B16:history` (offs16 written through the 12-bit si12 writer, bits
    // [25:22] are ORed without clearing): domain = those bits non-zero in the initial word.
    if c.tier == 1 && world.rtypes[c.idx].arch == "loongarch64" && world.rtypes[c.idx].r_type == 64
        && opts.is_known("loongarch64/R_LARCH_B16:history")
        && (c.w0 | c.alt) & 0x03c0_0000 != 0
    {
        c.w0 &= !0x03c0_0000;
        c.alt &= !0x03c0_0000;
        stats.count("excluded_known/loongarch64/R_LARCH_B16:history");
    }
}

fn u(j: &Value, k: &str) -> u64 {
    let s = j[k].as_str().unwrap_or("0");
    if let Some(h) = s.strip_prefix("0x") { u64::from_str_radix(h, 16).unwrap() } else { s.parse().unwrap() }
}

fn to_json(world: &World, c: &Case) -> Value {
    let (arch, name) = if c.tier == 0 {
        (world.variants[c.idx].arch, world.variants[c.idx].name.to_string())
    } else {
        (world.rtypes[c.idx].arch, world.rtypes[c.idx].name.clone())
    };
    json!({
        "tier": if c.tier == 0 { "variant" } else { "rtype" },
        "arch": arch,
        "name": name,
        "r_type": if c.tier == 1 { json!(world.rtypes[c.idx].r_type) } else { Value::Null },
        "w0": format!("{:#x}", c.w0),
        "guard": format!("{:#x}", c.guard),
        "alt": format!("{:#x}", c.alt),
        "v": format!("{:#x}", c.v),
        "neg": c.neg,
    })
}

fn from_json(world: &World, j: &Value) -> Option<Case> {
    let arch = j["arch"].as_str()?;
    let name = j["name"].as_str()?;
    let tier = u8::from(j["tier"].as_str()? == "rtype");
    let idx = if tier == 0 {
        world.variants.iter().position(|v| v.arch == arch && v.name == name)?
    } else {
        let t = j["r_type"].as_u64()? as u32;
        world.rtypes.iter().position(|r| r.arch == arch && r.r_type == t)?
    };
    Some(Case {
        tier,
        idx,
        w0: u(j, "w0"),
        w0_class: "replay",
        guard: u(j, "guard"),
        alt: u(j, "alt"),
        v: u(j, "v"),
        v_class: "replay",
        neg: j["neg"].as_bool().unwrap_or(false),
    })
}

// ------------------------------------------------------------------------------------------------
// The check.

fn rd(buf: &[u8], n: usize) -> u64 {
    let mut b = [0u8; 8];
    b[..n].copy_from_slice(&buf[..n]);
    u64::from_le_bytes(b)
}

/// Runs wild's writer on a 16-byte buffer whose first `window` bytes are `w0` and the rest `guard`.
/// Returns Ok(Some((window_bits, guard_intact))) / Ok(None) if wild rejected the value / Err on panic.
fn run_write(c: &Case, world: &World, w0: u64, window: usize) -> Result<Option<(u64, bool)>, String> {
    let mut buf = [0u8; 16];
    buf[..8].copy_from_slice(&w0.to_le_bytes());
    let g = c.guard.to_le_bytes();
    for i in window..16 {
        buf[i] = g[i % 8];
    }
    let before = buf;
    let res = if c.tier == 0 {
        let insn = world.variants[c.idx].insn;
        catch_unwind(AssertUnwindSafe(|| {
            insn.write_to_value(c.v, c.neg, &mut buf);
            true
        }))
    } else {
        let info = world.rtypes[c.idx].info;
        catch_unwind(AssertUnwindSafe(|| info.write_to_buffer(c.v, &mut buf).is_ok()))
    };
    match res {
        Err(_) => Err("panicked".to_string()),
        Ok(false) => Ok(None),
        Ok(true) => Ok(Some((rd(&buf, window), buf[window..] == before[window..]))),
    }
}

struct Outcome {
    class: String,
    nontrivial: bool,
    key: String,
    failures: Vec<(String, String)>,
}

fn check(world: &World, c: &Case) -> Outcome {
    let label = world.label(c);
    let mut out = Outcome { class: format!("{label}/{}", c.w0_class), nontrivial: false, key: String::new(), failures: vec![] };
    let Some(fc) = world.fc_of(c) else {
        out.class = format!("unmodelled/{label}");
        return out;
    };
    let window = fc.window();
    let (must, may) = (fc.must(), fc.may());
    let expected = if c.tier == 0 {
        variant_expected(&world.variants[c.idx], c.v, c.neg, c.w0)
    } else {
        Some(rtype_expected(world.rtypes[c.idx].rref.as_ref().unwrap(), c.v))
    };
    let describe = |o: u64| {
        format!(
            "{label}: w0={:#x} v={:#x}{} -> out={:#x} (field bits MUST={must:#x} MAY={may:#x})",
            c.w0,
            c.v,
            if c.neg { " negative" } else { "" },
            o
        )
    };
    let first = match run_write(c, world, c.w0, window) {
        Err(e) => {
            out.failures.push((format!("{label}:panic"), format!("{label}: w0={:#x} v={:#x}: writer {e}", c.w0, c.v)));
            return out;
        }
        Ok(None) => {
            out.class = format!("rejected/{label}");
            return out;
        }
        Ok(Some(x)) => x,
    };
    let (o, guard_ok) = first;
    // (1) locality
    if (o ^ c.w0) & !may != 0 || !guard_ok {
        out.failures.push((
            format!("{label}:locality"),
            format!(
                "{}; bits outside the immediate field changed: {:#x}{}",
                describe(o),
                (o ^ c.w0) & !may,
                if guard_ok { "" } else { " and bytes after the instruction window changed" }
            ),
        ));
    }
    // (2) history independence: two probes that differ from w0 only inside the field: random
    // field bits and an all-zero field.
    let mut history_failed = false;
    let mut o_zero_field = o;
    for (pi, w1) in [c.w0 ^ (c.alt & must), c.w0 & !must].into_iter().enumerate() {
        if w1 == c.w0 {
            continue;
        }
        match run_write(c, world, w1, window) {
            Ok(Some((o1, _))) => {
                if pi == 1 {
                    o_zero_field = o1;
                }
                if o1 != o && !history_failed {
                    history_failed = true;
                    out.failures.push((
                        format!("{label}:history"),
                        format!(
                            "{}; with only the field bits of the initial word changed (w0'={w1:#x}) the result is {o1:#x}: the field's new content depends on its old content",
                            describe(o)
                        ),
                    ));
                }
            }
            Ok(None) => {}
            Err(e) => out.failures.push((format!("{label}:panic"), format!("{label}: w0={w1:#x} v={:#x}: writer {e}", c.v))),
        }
    }
    // (3) exactness.  When the history clause failed, exactness is judged on the zero-field probe
    // so that "field ORed without clearing" yields one signature, not two.
    if let Some(e) = expected {
        let want = fc.scatter(e);
        let oe = if history_failed { o_zero_field } else { o };
        if oe & must != want {
            out.failures.push((
                format!("{label}:exact"),
                format!(
                    "{}; field holds {:#x}, the manual's encoding of this value is {:#x} (decoded immediate {:#x}, expected {:#x})",
                    describe(oe),
                    oe & must,
                    want,
                    fc.gather(oe),
                    e
                ),
            ));
        }
    }
    // Attribute tier-B failures to the variant writer when the same clause fails for the same
    // (w0, extracted value) in tier A: one root cause, one signature.
    if c.tier == 1 && !out.failures.is_empty() {
        let r = &world.rtypes[c.idx];
        if let Some(vi) = world.variants.iter().position(|v| v.insn == r.insn) {
            let v = &world.variants[vi];
            let width = r.range.1 - r.range.0;
            if v.fc == fc && (v.ev_bits == 64 || width <= v.ev_bits) {
                let ev = if r.range == (0, 64) { c.v } else { (c.v >> r.range.0) & ones(width) };
                let ca = Case { tier: 0, idx: vi, v: ev, neg: (c.v as i64) < 0, ..c.clone() };
                let oa = check(world, &ca);
                for f in &mut out.failures {
                    let clause = f.0.rsplit(':').next().unwrap().to_string();
                    if oa.failures.iter().any(|(s, _)| s.ends_with(&format!(":{clause}"))) {
                        f.0 = format!("{}/{}:{clause}", v.arch, v.name);
                    }
                }
            }
        }
    }
    out.nontrivial = c.w0 & may != 0 && c.w0 & !may & ones(8 * window as u32) != 0 && c.v != 0;
    out.key = format!("{label}/{:x}/{:x}/{}", c.w0, c.v, c.neg);
    let coarse = if c.tier == 0 { format!("A/{label}") } else { format!("B/{}/{fc:?}", world.rtypes[c.idx].arch) };
    out.class = format!("{coarse}/{}/{}", c.w0_class, c.v_class);
    out
}

/// Applies the known-finding tolerance: failures whose signature is a known finding are counted,
/// the first other failure is the verdict.
fn verdict(o: &Outcome, opts: &Opts, stats: &mut Stats, strict: bool) -> Option<(String, String)> {
    for (sig, msg) in &o.failures {
        if !strict && opts.is_known(sig) {
            stats.count(&format!("excluded_known/{sig}"));
            continue;
        }
        return Some((sig.clone(), msg.clone()));
    }
    None
}

fn record(o: &Outcome, stats: &mut Stats) {
    stats.count(&o.class);
    stats.eval(o.nontrivial.then(|| o.key.clone()));
}

pub fn run(opts: &Opts) -> Value {
    std::panic::set_hook(Box::new(|_| {}));
    let mut stats = Stats::default();
    if let Err(e) = self_test() {
        eprintln!("C13 reference table self-test failed: {e}");
        std::process::exit(3);
    }
    let world = World { variants: variants(), rtypes: rtypes() };
    if let Some(j) = &opts.replay {
        let Some(c) = from_json(&world, j) else {
            eprintln!("bad replay case");
            std::process::exit(3);
        };
        let o = check(&world, &c);
        if let Some((sig, msg)) = verdict(&o, opts, &mut stats, true) {
            stats.violation(&sig, msg, j.clone());
        }
        stats.evaluations = 1;
        return stats.to_json();
    }
    let unmodelled: Vec<String> = world.rtypes.iter().filter(|r| r.rref.is_none()).map(|r| format!("{}/{}", r.arch, r.name)).collect();
    stats.extra.insert("bitmasking_rtypes".into(), json!(world.rtypes.len()));
    stats.extra.insert("unmodelled_rtypes".into(), json!(unmodelled));

    // Development aid: VCHECK_SURVEY=1 lists every distinct failing signature (first case of each)
    // over the sweep and a random sample instead of stopping at the first one.
    if std::env::var("VCHECK_SURVEY").is_ok() {
        let seen: std::cell::RefCell<std::collections::BTreeMap<String, (u64, String, Value)>> = Default::default();
        let mut r = runner(opts.seed, opts.cases);
        let _ = r.run(&raw_strategy(), |raw| {
            let mut scratch = Stats::default();
            let c = materialise(&world, &raw, opts, &mut scratch);
            let o = check(&world, &c);
            for (sig, msg) in &o.failures {
                if !opts.is_known(sig) {
                    let mut seen = seen.borrow_mut();
                    let e = seen.entry(sig.clone()).or_insert_with(|| (0, msg.clone(), to_json(&world, &c)));
                    e.0 += 1;
                }
            }
            Ok(())
        });
        let seen = seen.into_inner();
        return json!({"survey": seen.iter().map(|(k, v)| json!({"sig": k, "n": v.0, "msg": v.1, "case": v.2})).collect::<Vec<_>>()});
    }

    // Phase 1: deterministic sweep: every variant / relocation type x every w0 class x every value
    // class (x 3 fixed raw words).  Identical in every shard (cheap), so it is run by shard 0 only
    // unless there is a single shard.
    let mut sweep = 0u64;
    let mut fail: Option<(String, String, Value)> = None;
    if opts.shard == 0 {
        'sweep: for tsel in [0u8, 1] {
            let n = if tsel == 0 { world.variants.len() } else { world.rtypes.len() };
            for i in 0..n {
                let idx = (((i as u64) << 16).div_ceil(n as u64)) as u16;
                for wc in 0..5u8 {
                    for vc in 0..14u8 {
                        for (k, seed) in [0x0123_4567_89ab_cdefu64, 0xfedc_ba98_7654_3210, 0xa5a5_5a5a_c3c3_3c3c].iter().enumerate() {
                            for neg in [false, true] {
                                let raw: Raw = (tsel, idx, wc, seed.rotate_left(7 * u32::from(vc)), k as u8, !*seed, seed.rotate_right(11), vc, seed.rotate_left(13 + u32::from(wc)), neg);
                                let c = materialise(&world, &raw, opts, &mut stats);
                                debug_assert_eq!(c.idx, i);
                                let o = check(&world, &c);
                                sweep += 1;
                                if let Some((sig, msg)) = verdict(&o, opts, &mut stats, false) {
                                    fail = Some((sig, msg, to_json(&world, &c)));
                                    break 'sweep;
                                }
                                record(&o, &mut stats);
                            }
                        }
                    }
                }
            }
        }
    }
    stats.extra.insert("sweep_cases".into(), json!(sweep));
    if let Some((sig, msg, j)) = fail {
        stats.violation(&sig, msg, j);
        return stats.to_json();
    }

    // Phase 2: exhaustive extracted values for small fields (tier A), sharded by value.
    let (max_bits, n_w0) = if opts.thorough { (21, 64u64) } else { (14, 6u64) };
    let mut exhaustive = 0u64;
    'ex: for (vi, v) in world.variants.iter().enumerate() {
        if v.ev_bits > max_bits {
            continue;
        }
        for ev in (opts.shard..(1u64 << v.ev_bits)).step_by(opts.shards as usize) {
            for k in 0..n_w0 {
                let wraw = (ev ^ k).wrapping_mul(0x9e37_79b9_7f4a_7c15).rotate_left(k as u32);
                let wc = if v.name == "MachOLow12" { 2 + (k % 2) as usize } else { (k % 5) as usize };
                let (w0, w0_class) = make_w0(v.fc, wc, wraw, (k / 5) as usize);
                for neg in [false, true] {
                    if neg && !matches!(v.insn, RI::AArch64(A::Movnz)) {
                        continue;
                    }
                    let mut c = Case { tier: 0, idx: vi, w0, w0_class, guard: !wraw, alt: wraw.rotate_left(29), v: ev, v_class: "exhaustive", neg };
                    apply_known_exclusions(&world, &mut c, opts, &mut stats);
                    let o = check(&world, &c);
                    exhaustive += 1;
                    if let Some((sig, msg)) = verdict(&o, opts, &mut stats, false) {
                        stats.violation(&sig, msg, to_json(&world, &c));
                        break 'ex;
                    }
                    record(&o, &mut stats);
                }
            }
        }
    }
    stats.extra.insert("exhaustive_cases".into(), json!(exhaustive));
    stats.extra.insert("exhaustive_max_field_bits".into(), json!(max_bits));
    if !stats.violations.is_empty() {
        return stats.to_json();
    }

    // Phase 3: seeded random sampling with shrinking.
    let mut r = runner(opts.seed, opts.cases);
    let result = {
        let stats = std::cell::RefCell::new(&mut stats);
        r.run(&raw_strategy(), |raw| {
            let mut s = stats.borrow_mut();
            let c = materialise(&world, &raw, opts, &mut s);
            let o = check(&world, &c);
            match verdict(&o, opts, &mut s, false) {
                None => {
                    record(&o, &mut s);
                    if s.samples.len() < 3 {
                        let j = to_json(&world, &c);
                        s.sample(j);
                    }
                    Ok(())
                }
                Some((sig, msg)) => {
                    s.frozen = true;
                    Err(TestCaseError::fail(format!("{sig}\u{1}{msg}")))
                }
            }
        })
    };
    if let Err(TestError::Fail(reason, raw)) = result {
        let text = reason.message().to_string();
        let (sig, msg) = text.split_once('\u{1}').unwrap_or(("unknown", &text));
        let mut scratch = Stats::default();
        let c = materialise(&world, &raw, opts, &mut scratch);
        stats.violation(sig, msg.to_string(), to_json(&world, &c));
    }
    let excluded: u64 = stats.classes.iter().filter(|(k, _)| k.starts_with("excluded_known/")).map(|(_, n)| *n).sum();
    stats.extra.insert("excluded_known_total".into(), json!(excluded));
    stats.to_json()
}
