//! C12 (in-process tier) — relocation overflow is reported exactly when the value doesn't fit.
//!
//! Every x86-64 / AArch64 relocation type that wild's tables know is driven through
//! `RelocationKindInfo::write_to_buffer(value, buf)` at the boundary classes of its field.
//! Oracle: my own table (`rules()`), not wild's `AllowedRange`s:
//!  * x86-64: the consensus of GNU ld 2.40 and lld 14 as measured by the end-to-end tier
//!    (checks/c12.py) on the same boundary classes: `accept` = both accept, outside `reject` = both
//!    reject, in between = the references disagree (not judged);
//!  * AArch64: the overflow checks of the AArch64 ELF psABI (5.7.x tables), hand-transcribed.
//! Clauses: X in `accept` (and aligned) -> wild must return Ok and, for data relocations, write
//! exactly X truncated to the psABI field size and nothing else; X outside `reject` -> wild must
//! return Err (a value that does not fit is never silently truncated).
use crate::util::Opts;
use crate::util::Stats;
use crate::util::runner;
use linker_utils::elf::RelocationKindInfo;
use proptest::prelude::*;
use proptest::test_runner::TestCaseError;
use proptest::test_runner::TestError;
use serde_json::Value;
use serde_json::json;
use std::panic::AssertUnwindSafe;
use std::panic::catch_unwind;

#[derive(Clone, Copy)]
struct Rule {
    arch: &'static str,
    r_type: u32,
    /// Data relocation: psABI field size in bytes. None for instruction-field relocations (their
    /// encoding is C13's subject).
    data_size: Option<usize>,
    /// Half-open range both references accept; None = every 64-bit value is accepted.
    accept: Option<(i128, i128)>,
    /// Values outside this half-open range are rejected by both references.
    reject: Option<(i128, i128)>,
    /// psABI alignment requirement of X (generated values are aligned).
    align: i128,
    /// Whether the "outside `reject` must be rejected" clause is judged (only for types whose
    /// reference behaviour was calibrated end-to-end against lld / GNU ld).
    judge_overflow: bool,
}

const P31: i128 = 1 << 31;
const P32: i128 = 1 << 32;

fn rules() -> Vec<Rule> {
    let mut v = Vec::new();
    let x = |r_type, size: usize, accept: Option<(i128, i128)>, reject: Option<(i128, i128)>| Rule {
        arch: "x86_64",
        r_type,
        data_size: Some(size),
        accept,
        reject,
        align: 1,
        judge_overflow: true,
    };
    // 64-bit fields: R_X86_64_64, PC64, GOTOFF64, GOT64, GOTPC64, PLTOFF64, DTPOFF64
    for t in [1, 24, 25, 27, 29, 31, 17] {
        v.push(x(t, 8, None, None));
    }
    // R_X86_64_32: must zero-extend to the original value.
    v.push(x(10, 4, Some((0, P32)), Some((0, P32))));
    // 32S and every sign-extended 32-bit field: 32S, PC32, PLT32, GOTPCREL, GOTPCRELX,
    // REX_GOTPCRELX, CODE_4/5/6_GOTPCRELX, GOTPC32, TLSGD, TLSLD, DTPOFF32, GOTTPOFF (+CODE_n),
    // TPOFF32, GOTPC32_TLSDESC (+CODE_n)
    for t in [11, 2, 4, 9, 41, 42, 43, 46, 49, 26, 19, 20, 21, 22, 44, 47, 50, 23, 34, 45, 48, 51] {
        v.push(x(t, 4, Some((-P31, P31)), Some((-P31, P31))));
    }
    // GOT32: a GOT offset; only the common part of the signed and unsigned views is judged.
    v.push(Rule { judge_overflow: false, ..x(3, 4, Some((0, P31)), None) });
    // R_X86_64_16: lld checkIntUInt(16), GNU ld bitfield.
    v.push(x(12, 2, Some((-(1 << 15), 1 << 16)), Some((-(1 << 16), 1 << 16))));
    // R_X86_64_PC16: lld signed, GNU ld bitfield.
    v.push(x(13, 2, Some((-(1 << 15), 1 << 15)), Some((-(1 << 16), 1 << 16))));
    // R_X86_64_8: lld checkIntUInt(8), GNU ld bitfield.
    v.push(x(14, 1, Some((-128, 256)), Some((-256, 256))));
    // R_X86_64_PC8: both signed.
    v.push(x(15, 1, Some((-128, 128)), Some((-128, 128))));

    let a = |r_type, data_size: Option<usize>, range: Option<(i128, i128)>, align: i128, judge: bool| Rule {
        arch: "aarch64",
        r_type,
        data_size,
        accept: range,
        reject: range,
        align,
        judge_overflow: judge,
    };
    let s = |bits: u32| Some((-(1i128 << bits), 1i128 << bits));
    let un = |bits: u32| Some((0i128, 1i128 << bits));
    // Data
    v.push(a(257, Some(8), None, 1, true));
    v.push(a(258, Some(4), Some((-P31, P32)), 1, true));
    v.push(a(259, Some(2), Some((-(1 << 15), 1 << 16)), 1, true));
    v.push(a(260, Some(8), None, 1, true));
    v.push(a(261, Some(4), Some((-P31, P32)), 1, true));
    v.push(a(262, Some(2), Some((-(1 << 15), 1 << 16)), 1, true));
    v.push(a(314, Some(4), Some((-P31, P31)), 1, true));
    v.push(a(307, Some(8), None, 1, false));
    v.push(a(308, Some(4), Some((-P31, P31)), 1, false));
    v.push(a(315, Some(4), Some((-P31, P31)), 1, false));
    // MOVW_UABS / SABS
    v.push(a(263, None, un(16), 1, true));
    v.push(a(264, None, None, 1, true));
    v.push(a(265, None, un(32), 1, true));
    v.push(a(266, None, None, 1, true));
    v.push(a(267, None, un(48), 1, true));
    v.push(a(268, None, None, 1, true));
    v.push(a(269, None, None, 1, true));
    v.push(a(270, None, s(16), 1, true));
    v.push(a(271, None, s(32), 1, true));
    v.push(a(272, None, s(48), 1, true));
    // PC-relative 19/21/33 bits
    v.push(a(273, None, s(20), 4, true));
    v.push(a(274, None, s(20), 1, true));
    v.push(a(275, None, s(32), 1, true));
    v.push(a(276, None, None, 1, true));
    // LO12_NC
    v.push(a(277, None, None, 1, true));
    v.push(a(278, None, None, 1, true));
    v.push(a(284, None, None, 2, true));
    v.push(a(285, None, None, 4, true));
    v.push(a(286, None, None, 8, true));
    v.push(a(299, None, None, 16, true));
    // Branches
    v.push(a(279, None, s(15), 4, true));
    v.push(a(280, None, s(20), 4, true));
    v.push(a(282, None, s(27), 4, true));
    v.push(a(283, None, s(27), 4, true));
    // MOVW_PREL
    v.push(a(287, None, s(16), 1, true));
    v.push(a(288, None, None, 1, true));
    v.push(a(289, None, s(32), 1, true));
    v.push(a(290, None, None, 1, true));
    v.push(a(291, None, s(48), 1, true));
    v.push(a(292, None, None, 1, true));
    v.push(a(293, None, None, 1, true));
    // MOVW_GOTOFF, GOT-relative (not reachable with absolute symbols end-to-end: accept clause only)
    v.push(a(300, None, s(16), 1, false));
    v.push(a(301, None, None, 1, false));
    v.push(a(302, None, s(32), 1, false));
    v.push(a(303, None, None, 1, false));
    v.push(a(304, None, s(48), 1, false));
    v.push(a(305, None, None, 1, false));
    v.push(a(306, None, None, 1, false));
    v.push(a(309, None, s(20), 4, false));
    v.push(a(310, None, un(15), 8, false));
    v.push(a(311, None, s(32), 1, false));
    v.push(a(312, None, None, 8, false));
    v.push(a(313, None, un(15), 8, false));
    // TLS (accept clause only)
    for t in [512, 517, 561] {
        v.push(a(t, None, s(20), 1, false));
    }
    for t in [513, 518, 541, 562] {
        v.push(a(t, None, s(32), 1, false));
    }
    for t in [514, 519, 530, 551, 564] {
        v.push(a(t, None, None, 1, false));
    }
    for t in [515, 520, 524, 539, 545, 565] {
        v.push(a(t, None, s(32), 1, false));
    }
    for t in [516, 521, 525, 527, 540, 546, 548, 566] {
        v.push(a(t, None, None, 1, false));
    }
    for t in [522, 543, 560] {
        v.push(a(t, None, s(20), 4, false));
    }
    for t in [523, 544] {
        v.push(a(t, None, s(48), 1, false));
    }
    for t in [526, 547] {
        v.push(a(t, None, s(16), 1, false));
    }
    for t in [528, 549] {
        v.push(a(t, None, un(24), 1, false));
    }
    for t in [529, 550] {
        v.push(a(t, None, un(12), 1, false));
    }
    // LDSTn_{DTPREL,TPREL}_LO12 (checked: 0 <= X < 2^12) and _NC
    for (t, al) in [(531, 1), (533, 2), (535, 4), (537, 8), (572, 16), (552, 1), (554, 2), (556, 4), (558, 8), (570, 16)] {
        v.push(a(t, None, un(12), al, false));
        v.push(a(t + 1, None, None, al, false));
    }
    v.push(a(542, None, None, 8, false));
    v.push(a(563, None, None, 8, false));
    v
}

fn lookup(arch: &str, t: u32) -> Option<RelocationKindInfo> {
    match arch {
        "x86_64" => linker_utils::x86_64::relocation_from_raw(t),
        _ => linker_utils::aarch64::relocation_type_from_raw(t),
    }
}

fn name(arch: &str, t: u32) -> String {
    match arch {
        "x86_64" => linker_utils::elf::x86_64_rel_type_to_string(t).into_owned(),
        _ => linker_utils::elf::aarch64_rel_type_to_string(t).into_owned(),
    }
}

#[derive(Clone, Debug)]
struct Case {
    rule: usize,
    x: i64,
    cls: &'static str,
}

fn clamp(v: i128) -> Option<i64> {
    i64::try_from(v).ok()
}

/// Boundary classes of a rule: +-2 around every limit of `accept` and `reject`, plus generic ones.
fn boundary(rule: &Rule) -> Vec<(i64, &'static str)> {
    let mut out = vec![
        (0, "zero"),
        (1, "one"),
        (-1, "minus_one"),
        (i64::MAX, "i64_max"),
        (i64::MAX - 1, "i64_max-1"),
        (i64::MIN, "i64_min"),
        (i64::MIN + 1, "i64_min+1"),
    ];
    let mut lims: Vec<i128> = Vec::new();
    for r in [rule.accept, rule.reject].into_iter().flatten() {
        lims.push(r.0);
        lims.push(r.1);
        // the other sign interpretation of the same width
        lims.push(-r.1);
        lims.push(r.1 / 2);
        lims.push(r.1 * 2);
    }
    if lims.is_empty() {
        lims.extend([1 << 16, 1 << 32, -(1 << 31), 1 << 31, 1 << 48]);
    }
    for l in lims {
        for d in -2i128..=2 {
            if let Some(v) = clamp(l + d * rule.align) {
                out.push((v, "boundary"));
            }
        }
    }
    out
}

fn align_to(x: i64, align: i128) -> i64 {
    if align == 1 { x } else { (i128::from(x) - i128::from(x).rem_euclid(align)) as i64 }
}

fn case_strategy(rules: std::sync::Arc<Vec<Rule>>) -> impl Strategy<Value = Case> {
    let n = rules.len();
    (0..n, 0u8..8, any::<u16>(), any::<i64>()).prop_map(move |(ri, vc, pick, raw)| {
        let rule = &rules[ri];
        let b = boundary(rule);
        let (x, cls) = match vc {
            0..=3 => b[(usize::from(pick) * b.len()) >> 16],
            4 | 5 => {
                // random inside +-4x the field
                let hi = rule.accept.or(rule.reject).map_or(1i128 << 40, |r| r.1 * 4).min(1 << 62);
                ((i128::from(raw).rem_euclid(2 * hi) - hi) as i64, "random_near")
            }
            _ => (raw, "random_64"),
        };
        Case { rule: ri, x: align_to(x, rule.align), cls }
    })
}

/// Exact domains of the known findings (excluded by construction when listed as known).
fn known_domain(rule: &Rule, x: i64) -> Option<String> {
    let n = name(rule.arch, rule.r_type);
    if rule.arch == "x86_64" && rule.r_type == 14 && (128..=255).contains(&x) {
        return Some(format!("x86_64/{n}:rejects-valid"));
    }
    if rule.arch == "x86_64" && rule.r_type == 12 && (32768..=65535).contains(&x) {
        return Some(format!("x86_64/{n}:rejects-valid"));
    }
    if x == i64::MAX && rule.accept.is_none() {
        return Some("no_check:rejects-i64-max".into());
    }
    if rule.arch == "aarch64"
        && matches!(rule.r_type, 287 | 289 | 291)
        && rule.reject.is_some_and(|(lo, hi)| i128::from(x) < lo || i128::from(x) >= hi)
    {
        return Some(format!("aarch64/{n}:accepts-overflow"));
    }
    None
}

struct Outcome {
    class: String,
    nontrivial: bool,
    failure: Option<(String, String)>,
    excluded: Option<String>,
}

fn check(rules: &[Rule], c: &Case, opts: &Opts, strict: bool) -> Outcome {
    let rule = &rules[c.rule];
    let n = name(rule.arch, rule.r_type);
    let label = format!("{}/{n}", rule.arch);
    let mut out = Outcome { class: format!("{label}/{}", c.cls), nontrivial: false, failure: None, excluded: None };
    let Some(info) = lookup(rule.arch, rule.r_type) else {
        out.class = format!("not_in_wild_table/{label}");
        return out;
    };
    if !strict
        && let Some(sig) = known_domain(rule, c.x)
        && opts.is_known(&sig)
    {
        out.excluded = Some(sig);
        return out;
    }
    let x = i128::from(c.x);
    let in_accept = rule.accept.is_none_or(|(lo, hi)| lo <= x && x < hi);
    let out_reject = rule.reject.is_some_and(|(lo, hi)| x < lo || x >= hi);
    let near = |r: Option<(i128, i128)>| r.is_some_and(|(lo, hi)| (x - lo).abs() <= 2 * rule.align || (x - hi).abs() <= 2 * rule.align);
    let gap = rule.accept.is_some_and(|(lo, hi)| (lo < 0 && x >= hi / 2 && x < hi) || (lo == 0 && x < 0 && x >= -hi));
    out.nontrivial = near(rule.accept) || near(rule.reject) || gap || c.x >= i64::MAX - 2 || c.x <= i64::MIN + 2;
    let mut buf = [0x55u8; 16];
    if rule.data_size.is_none() {
        buf[..8].fill(0);
    }
    let before = buf;
    let res = catch_unwind(AssertUnwindSafe(|| info.write_to_buffer(c.x as u64, &mut buf)));
    let verdict = match res {
        Err(_) => {
            out.failure = Some((format!("{label}:panic"), format!("{n} X={} ({:#x}): write_to_buffer panicked", c.x, c.x)));
            return out;
        }
        Ok(r) => r.map_err(|e| e.to_string()),
    };
    let sigx = |kind: &str| {
        if c.x == i64::MAX && rule.accept.is_none() && kind == "rejects-valid" {
            "no_check:rejects-i64-max".to_string()
        } else {
            format!("{label}:{kind}")
        }
    };
    if in_accept {
        match &verdict {
            Err(e) => {
                out.failure = Some((
                    sigx("rejects-valid"),
                    format!("{n} with computed value {} ({:#x}) fits the field per the references (accept range {:?}); wild rejects it: {e}", c.x, c.x as u64, rule.accept),
                ));
            }
            Ok(()) => {
                if let Some(sz) = rule.data_size {
                    let want = &(c.x as u64).to_le_bytes()[..sz];
                    if &buf[..sz] != want || buf[sz..] != before[sz..] {
                        out.failure = Some((
                            format!("{label}:wrong-bytes"),
                            format!("{n} with value {:#x}: the {sz}-byte field must hold {want:02x?} and nothing else may change; buffer went from {:02x?} to {:02x?}", c.x as u64, &before[..12], &buf[..12]),
                        ));
                    }
                }
            }
        }
        out.class = format!("{label}/accept/{}", c.cls);
    } else if out_reject {
        if verdict.is_ok() && rule.judge_overflow {
            out.failure = Some((
                format!("{label}:accepts-overflow"),
                format!("{n} with computed value {} ({:#x}) does not fit the field (reject outside {:?}); wild accepts it and writes {:02x?}: silently truncated", c.x, c.x as u64, rule.reject, &buf[..8]),
            ));
        }
        out.class = format!("{label}/reject{}/{}", if rule.judge_overflow { "" } else { "_unjudged" }, c.cls);
    } else {
        out.class = format!("{label}/references_split/{}", c.cls);
        out.nontrivial = false;
    }
    out
}

fn to_json(rules: &[Rule], c: &Case) -> Value {
    let r = &rules[c.rule];
    json!({"arch": r.arch, "r_type": r.r_type, "name": name(r.arch, r.r_type), "x": c.x.to_string()})
}

fn from_json(rules: &[Rule], j: &Value) -> Option<Case> {
    let arch = j["arch"].as_str()?;
    let t = j["r_type"].as_u64()? as u32;
    let rule = rules.iter().position(|r| r.arch == arch && r.r_type == t)?;
    Some(Case { rule, x: j["x"].as_str()?.parse().ok()?, cls: "replay" })
}

pub fn run(opts: &Opts) -> Value {
    std::panic::set_hook(Box::new(|_| {}));
    let mut stats = Stats::default();
    let rules = std::sync::Arc::new(rules());
    if let Some(j) = &opts.replay {
        let Some(c) = from_json(&rules, j) else {
            eprintln!("bad replay case");
            std::process::exit(3);
        };
        let o = check(&rules, &c, opts, true);
        if let Some((sig, msg)) = o.failure {
            stats.violation(&sig, msg, j.clone());
        }
        stats.evaluations = 1;
        return stats.to_json();
    }
    // Types in wild's tables without a rule here (reported, not judged).
    let mut unmodelled = Vec::new();
    for t in 0..1100u32 {
        for arch in ["x86_64", "aarch64"] {
            if let Some(info) = lookup(arch, t)
                && !rules.iter().any(|r| r.arch == arch && r.r_type == t)
                && !matches!(info.size, linker_utils::elf::RelocationSize::ByteSize(0))
            {
                unmodelled.push(format!("{arch}/{}", name(arch, t)));
            }
        }
    }
    stats.extra.insert("unmodelled_rtypes".into(), json!(unmodelled));
    stats.extra.insert("rules".into(), json!(rules.len()));

    let mut handle = |o: Outcome, c: &Case, stats: &mut Stats| -> Option<(String, String)> {
        if let Some(sig) = &o.excluded {
            stats.count(&format!("excluded_known/{sig}"));
            return None;
        }
        if let Some(f) = o.failure {
            // Table-level known findings without a value domain (e.g. a wrong field size) are
            // tolerated by exact signature.
            if opts.is_known(&f.0) {
                stats.count(&format!("excluded_known/{}", f.0));
                return None;
            }
            return Some(f);
        }
        stats.count(&o.class);
        stats.eval(o.nontrivial.then(|| format!("{}/{}", c.rule, c.x)));
        None
    };

    if std::env::var("VCHECK_SURVEY").is_ok() {
        let mut seen: std::collections::BTreeMap<String, (u64, String, Value)> = Default::default();
        for (ri, rule) in rules.iter().enumerate() {
            for (x, cls) in boundary(rule) {
                let c = Case { rule: ri, x: align_to(x, rule.align), cls };
                if let Some((sig, msg)) = check(&rules, &c, opts, false).failure {
                    let e = seen.entry(sig).or_insert_with(|| (0, msg, to_json(&rules, &c)));
                    e.0 += 1;
                }
            }
        }
        return json!({"survey": seen.iter().map(|(k, v)| json!({"sig": k, "n": v.0, "msg": v.1, "case": v.2})).collect::<Vec<_>>()});
    }

    // Phase 1: exhaustive boundary classes of every rule (shard 0 only: identical everywhere).
    let mut sweep = 0u64;
    if opts.shard == 0 {
        'outer: for (ri, rule) in rules.iter().enumerate() {
            for (x, cls) in boundary(rule) {
                let c = Case { rule: ri, x: align_to(x, rule.align), cls };
                sweep += 1;
                let o = check(&rules, &c, opts, false);
                if let Some((sig, msg)) = handle(o, &c, &mut stats) {
                    stats.violation(&sig, msg, to_json(&rules, &c));
                    break 'outer;
                }
            }
        }
    }
    stats.extra.insert("boundary_cases_exhaustive".into(), json!(sweep));
    if !stats.violations.is_empty() {
        return stats.to_json();
    }

    // Phase 2: seeded random sampling with shrinking.
    let mut r = runner(opts.seed, opts.cases);
    let result = {
        let stats = std::cell::RefCell::new(&mut stats);
        let rules2 = rules.clone();
        r.run(&case_strategy(rules.clone()), move |c| {
            let mut s = stats.borrow_mut();
            let o = check(&rules2, &c, opts, false);
            if s.samples.len() < 3 && o.failure.is_none() {
                let j = to_json(&rules2, &c);
                s.sample(j);
            }
            match handle(o, &c, &mut s) {
                None => Ok(()),
                Some((sig, msg)) => {
                    s.frozen = true;
                    Err(TestCaseError::fail(format!("{sig}\u{1}{msg}")))
                }
            }
        })
    };
    if let Err(TestError::Fail(reason, c)) = result {
        let text = reason.message().to_string();
        let (sig, msg) = text.split_once('\u{1}').unwrap_or(("unknown", &text));
        stats.violation(sig, msg.to_string(), to_json(&rules, &c));
    }
    let excluded: u64 = stats.classes.iter().filter(|(k, _)| k.starts_with("excluded_known/")).map(|(_, n)| *n).sum();
    stats.extra.insert("excluded_known_total".into(), json!(excluded));
    stats.to_json()
}
