//! In-process property checks against libwild / linker-utils (built with --cfg wild_verif).
//! Usage: vcheck <subcommand> --seed N --cases N [--replay FILE]
//! Prints one JSON object on stdout describing what was explored and any violation found.
mod c11;
mod c12;
mod c13;
mod c14;
mod c29;
mod util;

fn main() {
    let args: Vec<String> = std::env::args().collect();
    if args.len() < 2 {
        eprintln!("usage: vcheck <check> [--seed N] [--cases N] [--replay JSON]");
        std::process::exit(2);
    }
    let opts = util::Opts::parse(&args[2..]);
    let out = match args[1].as_str() {
        "c11" => c11::run(&opts),
        "c12" => c12::run(&opts),
        "c13" => c13::run(&opts),
        "c14" => c14::run(&opts),
        "c29" => c29::run(&opts),
        other => {
            eprintln!("unknown check {other}");
            std::process::exit(2);
        }
    };
    println!("{}", serde_json::to_string(&out).unwrap());
}
