//! C14 (oracle B, in-process) — x86-64 GOT/TLS relaxations preserve instruction semantics.
//!
//! Generated instruction bytes (legacy, REX and REX2 encodings of `op sym@GOTPCREL(%rip), reg`,
//! `call/jmp *sym@GOTPCREL(%rip)`, IE/TLSDESC/GD/LD TLS sequences, with random neighbouring bytes)
//! go through `libwild::verif::api::x86_64_relax` (= `ElfX86_64::new_relaxation` + `apply`).  The
//! relocation wild then chose is applied with wild's own `write_to_buffer` for a generated symbol
//! value, and the result is decoded with this file's own REX/REX2/ModRM decoder (written from the
//! SDM / APX spec, no use of wild's tables).  Required: same operation, same register, same
//! operand size, relocation field where the decoder finds the immediate/displacement, bytes outside
//! the instruction untouched, and the operand the rewritten instruction computes at run time
//! (sign-extended imm32 for 64-bit operand size, rip + disp32, with the load bias of a PIE applied
//! to code and symbol addresses but not to immediates) equal to what the original would load from
//! a GOT slot holding the symbol's final value.
use crate::util::Opts;
use crate::util::Stats;
use crate::util::runner;
use libwild::verif::api;
use linker_utils::elf::RelocationKind;
use proptest::prelude::*;
use proptest::test_runner::TestCaseError;
use proptest::test_runner::TestError;
use serde_json::Value;
use serde_json::json;
use std::panic::AssertUnwindSafe;
use std::panic::catch_unwind;

const R_GOTPCREL: u32 = 9;
const R_GOTPCRELX: u32 = 41;
const R_REX_GOTPCRELX: u32 = 42;
const R_CODE_4_GOTPCRELX: u32 = 43;
const R_GOTTPOFF: u32 = 22;
const R_CODE_4_GOTTPOFF: u32 = 44;
const R_TLSGD: u32 = 19;
const R_TLSLD: u32 = 20;
const R_GOTPC32_TLSDESC: u32 = 34;
const R_TLSDESC_CALL: u32 = 35;

#[derive(Clone, Copy, Debug, PartialEq, Eq)]
enum Op {
    Mov,
    Add,
    Or,
    Adc,
    Sbb,
    And,
    Sub,
    Xor,
    Cmp,
    Test,
    Lea,
    Call,
    Jmp,
}

const GOT_OPS: [(Op, u8); 10] = [
    (Op::Mov, 0x8b),
    (Op::Add, 0x03),
    (Op::Sub, 0x2b),
    (Op::Cmp, 0x3b),
    (Op::Test, 0x85),
    (Op::And, 0x23),
    (Op::Or, 0x0b),
    (Op::Xor, 0x33),
    (Op::Adc, 0x13),
    (Op::Sbb, 0x1b),
];

#[derive(Clone, Copy, Debug, PartialEq, Eq)]
enum Src {
    /// [rip + disp32]: a load from memory (GOT slot).
    RipMem,
    /// rip + disp32 as a value (lea).
    RipAddr,
    Imm32,
    Rel32,
}

#[derive(Clone, Copy, Debug)]
struct Dec {
    len: usize,
    op: Op,
    w: bool,
    /// Register operand (destination for mov/add/..., compared register for cmp/test), 0..31.
    reg: u8,
    src: Src,
    /// Offset (from the decode start) of the 4-byte displacement / immediate / rel32.
    field: usize,
}

/// Decodes one instruction of the classes this check deals with. None = not one of them.
fn decode(b: &[u8]) -> Option<Dec> {
    let mut i = 0;
    // address-size prefix (used as padding by `67 e8 rel32`)
    if *b.get(i)? == 0x67 {
        i += 1;
    }
    let (mut w, mut r, mut bx) = (false, 0u8, 0u8);
    if *b.get(i)? == 0xd5 {
        // REX2: d5 [M0 R4 X4 B4 W R3 X3 B3]
        let p = *b.get(i + 1)?;
        if p & 0x80 != 0 {
            return None; // map 1 (0f xx) is not used by these forms
        }
        w = p & 8 != 0;
        r = (p >> 2 & 1) << 3 | (p >> 6 & 1) << 4;
        bx = (p & 1) << 3 | (p >> 4 & 1) << 4;
        if p & 0x22 != 0 {
            return None; // X3/X4 only matter with a SIB byte
        }
        i += 2;
    } else if *b.get(i)? & 0xf0 == 0x40 {
        let p = b[i];
        w = p & 8 != 0;
        r = (p >> 2 & 1) << 3;
        bx = (p & 1) << 3;
        i += 1;
    }
    let opc = *b.get(i)?;
    let modrm = |k: usize| -> Option<(u8, u8, u8)> {
        let m = *b.get(k)?;
        Some((m >> 6, m >> 3 & 7, m & 7))
    };
    match opc {
        0x8b | 0x03 | 0x2b | 0x3b | 0x85 | 0x23 | 0x0b | 0x33 | 0x13 | 0x1b | 0x8d => {
            let (md, reg, rm) = modrm(i + 1)?;
            if md != 0 || rm != 5 {
                return None;
            }
            let op = match opc {
                0x8d => Op::Lea,
                _ => GOT_OPS.iter().find(|(_, o)| *o == opc)?.0,
            };
            b.get(i + 5)?;
            Some(Dec { len: i + 6, op, w, reg: reg | r, src: if opc == 0x8d { Src::RipAddr } else { Src::RipMem }, field: i + 2 })
        }
        0xc7 | 0x81 | 0xf7 => {
            let (md, digit, rm) = modrm(i + 1)?;
            if md != 3 {
                return None;
            }
            let op = match (opc, digit) {
                (0xc7, 0) => Op::Mov,
                (0xf7, 0) => Op::Test,
                (0x81, 0) => Op::Add,
                (0x81, 1) => Op::Or,
                (0x81, 2) => Op::Adc,
                (0x81, 3) => Op::Sbb,
                (0x81, 4) => Op::And,
                (0x81, 5) => Op::Sub,
                (0x81, 6) => Op::Xor,
                (0x81, 7) => Op::Cmp,
                _ => return None,
            };
            b.get(i + 5)?;
            Some(Dec { len: i + 6, op, w, reg: rm | bx, src: Src::Imm32, field: i + 2 })
        }
        0xff => {
            let m = *b.get(i + 1)?;
            let op = match m {
                0x15 => Op::Call,
                0x25 => Op::Jmp,
                _ => return None,
            };
            b.get(i + 5)?;
            Some(Dec { len: i + 6, op, w: true, reg: 0, src: Src::RipMem, field: i + 2 })
        }
        0xe8 | 0xe9 => {
            b.get(i + 4)?;
            Some(Dec { len: i + 5, op: if opc == 0xe8 { Op::Call } else { Op::Jmp }, w: true, reg: 0, src: Src::Rel32, field: i + 1 })
        }
        _ => None,
    }
}

#[derive(Clone, Copy, Debug, PartialEq, Eq)]
enum Enc {
    Legacy,
    Rex,
    Rex2,
}

#[derive(Clone, Copy, Debug, PartialEq, Eq)]
enum Form {
    /// index into GOT_OPS
    Got(u8),
    Call,
    Jmp,
    /// IE: mov/add x@gottpoff(%rip), reg
    IeMov,
    IeAdd,
    /// lea x@tlsdesc(%rip), reg
    TlsDescLea,
    TlsDescCall,
    GdRegular,
    LdDirect,
    LdNoPlt,
}

#[derive(Clone, Debug)]
struct Case {
    form: Form,
    enc: Enc,
    w: bool,
    reg: u8,
    /// Use the non-X relocation type (R_X86_64_GOTPCREL) for a GOT form.
    plain: bool,
    pre: Vec<u8>,
    post: Vec<u8>,
    disp: u32,
    /// value-flag bits passed to wild: ABSOLUTE=1, DYNAMIC=2, IFUNC=4, NON_INTERPOSABLE=8
    flags: u16,
    output_kind: u8,
    /// Symbol value S (address, absolute value, or TP offset for TLS forms).
    value: u64,
    base: u64,
}

const VALUES: [u64; 14] = [
    0,
    1,
    0x7fff_ffff,
    0x8000_0000,
    0x9000_0000,
    0xffff_ffff,
    0x1_0000_0000,
    0x40_1000,
    0x7fff_fffe,
    0xffff_ffff_8000_0000,
    0xffff_ffff_ffff_ffff,
    0x8000_0000_0000_0000,
    0x7fff_ffff_ffff_ffff,
    0x5555_5555_1234,
];

fn case_strategy() -> impl Strategy<Value = Case> {
    let form = prop_oneof![
        10 => (0u8..10).prop_map(Form::Got),
        2 => Just(Form::Call),
        2 => Just(Form::Jmp),
        2 => Just(Form::IeMov),
        2 => Just(Form::IeAdd),
        1 => Just(Form::TlsDescLea),
        1 => Just(Form::TlsDescCall),
        1 => Just(Form::GdRegular),
        1 => Just(Form::LdDirect),
        1 => Just(Form::LdNoPlt),
    ];
    let enc = prop_oneof![2 => Just(Enc::Legacy), 4 => Just(Enc::Rex), 2 => Just(Enc::Rex2)];
    let value = prop_oneof![
        4 => (0usize..VALUES.len()).prop_map(|i| VALUES[i]),
        2 => (0u64..(1 << 33)),
        1 => any::<u64>(),
        1 => (0u64..0x4000_0000).prop_map(|v| 0x40_0000 + v),
    ];
    let flags = prop_oneof![
        4 => Just(8u16),       // address, non-interposable
        4 => Just(9u16),       // absolute, non-interposable
        1 => Just(0u16),       // address, interposable
        1 => Just(2u16),       // dynamic
        1 => Just(12u16),      // ifunc
    ];
    (
        (form, enc, any::<bool>(), 0u8..32, prop::bool::weighted(0.15)),
        (prop::collection::vec(any::<u8>(), 0..6), prop::collection::vec(any::<u8>(), 0..6), prop_oneof![3 => Just(0u32), 1 => any::<u32>()]),
        (flags, 0u8..5, value, prop_oneof![Just(0x40_1000u64), Just(0x20_0000), (1u64..0x7_ffff).prop_map(|p| p << 12)]),
    )
        .prop_map(|((form, enc, w, reg, plain), (pre, post, disp), (flags, output_kind, value, base))| Case {
            form,
            enc,
            w,
            reg,
            plain,
            pre,
            post,
            disp,
            flags,
            output_kind,
            value,
            base,
        })
}

/// Builds (section bytes, instruction start, original instruction/sequence length, relocation
/// offset, r_type, addend) or None if the combination cannot be encoded.
fn build(c: &Case) -> Option<(Vec<u8>, usize, usize, usize, u32, i64)> {
    let mut b = c.pre.clone();
    let start = b.len();
    let disp = c.disp.to_le_bytes();
    let mut reg = c.reg;
    let mut enc = c.enc;
    let mut w = c.w;
    let mut seq = |b: &mut Vec<u8>, bytes: &[u8]| b.extend_from_slice(bytes);
    let prefix = |b: &mut Vec<u8>, enc: Enc, w: bool, reg: u8| match enc {
        Enc::Legacy => {}
        Enc::Rex => b.push(0x40 | u8::from(w) << 3 | (reg >> 3 & 1) << 2),
        Enc::Rex2 => {
            b.push(0xd5);
            b.push(u8::from(w) << 3 | (reg >> 3 & 1) << 2 | (reg >> 4 & 1) << 6);
        }
    };
    match enc {
        Enc::Legacy => {
            reg &= 7;
            w = false;
        }
        Enc::Rex => reg &= 15,
        Enc::Rex2 => {}
    }
    let (r_type, field, addend, len);
    match c.form {
        Form::Got(i) => {
            let (_, opc) = GOT_OPS[i as usize];
            prefix(&mut b, enc, w, reg);
            b.push(opc);
            b.push((reg & 7) << 3 | 5);
            field = b.len();
            seq(&mut b, &disp);
            r_type = if c.plain {
                R_GOTPCREL
            } else {
                match enc {
                    Enc::Legacy => R_GOTPCRELX,
                    Enc::Rex => R_REX_GOTPCRELX,
                    Enc::Rex2 => R_CODE_4_GOTPCRELX,
                }
            };
            addend = -4;
            len = b.len() - start;
        }
        Form::Call | Form::Jmp => {
            seq(&mut b, &[0xff, if c.form == Form::Call { 0x15 } else { 0x25 }]);
            field = b.len();
            seq(&mut b, &disp);
            r_type = if c.plain { R_GOTPCREL } else { R_GOTPCRELX };
            addend = -4;
            len = 6;
        }
        Form::IeMov | Form::IeAdd => {
            if enc == Enc::Legacy {
                enc = Enc::Rex;
                reg = c.reg & 15;
            }
            prefix(&mut b, enc, true, reg);
            b.push(if c.form == Form::IeMov { 0x8b } else { 0x03 });
            b.push((reg & 7) << 3 | 5);
            field = b.len();
            seq(&mut b, &disp);
            r_type = if enc == Enc::Rex2 { R_CODE_4_GOTTPOFF } else { R_GOTTPOFF };
            addend = -4;
            len = b.len() - start;
        }
        Form::TlsDescLea => {
            reg = c.reg & 15;
            b.push(0x48 | (reg >> 3) << 2);
            b.push(0x8d);
            b.push((reg & 7) << 3 | 5);
            field = b.len();
            seq(&mut b, &disp);
            r_type = R_GOTPC32_TLSDESC;
            addend = -4;
            len = 7;
        }
        Form::TlsDescCall => {
            // call *(%rax)
            field = b.len();
            seq(&mut b, &[0xff, 0x10]);
            r_type = R_TLSDESC_CALL;
            addend = 0;
            len = 2;
        }
        Form::GdRegular => {
            // data16 lea x@tlsgd(%rip),%rdi ; data16 data16 rex.W call __tls_get_addr@PLT
            seq(&mut b, &[0x66, 0x48, 0x8d, 0x3d]);
            field = b.len();
            seq(&mut b, &disp);
            seq(&mut b, &[0x66, 0x66, 0x48, 0xe8]);
            seq(&mut b, &disp);
            r_type = R_TLSGD;
            addend = -4;
            len = 16;
        }
        Form::LdDirect | Form::LdNoPlt => {
            // lea x@tlsld(%rip),%rdi ; call __tls_get_addr@PLT | call *__tls_get_addr@GOTPCREL(%rip)
            seq(&mut b, &[0x48, 0x8d, 0x3d]);
            field = b.len();
            seq(&mut b, &disp);
            if c.form == Form::LdDirect {
                b.push(0xe8);
                seq(&mut b, &disp);
                len = 12;
            } else {
                seq(&mut b, &[0xff, 0x15]);
                seq(&mut b, &disp);
                len = 13;
            }
            r_type = R_TLSLD;
            addend = -4;
        }
    }
    b.extend_from_slice(&c.post);
    Some((b, start, len, field, r_type, addend))
}

fn sext32(v: u32) -> u64 {
    v as i32 as i64 as u64
}

struct Outcome {
    class: String,
    nontrivial: bool,
    key: String,
    failure: Option<(String, String)>,
    excluded: Option<String>,
}

fn hex(b: &[u8]) -> String {
    b.iter().map(|x| format!("{x:02x}")).collect::<Vec<_>>().join(" ")
}

fn is_tls(form: Form) -> bool {
    !matches!(form, Form::Got(_) | Form::Call | Form::Jmp)
}

fn check(c: &Case, opts: &Opts, strict: bool) -> Outcome {
    let form_name = match c.form {
        Form::Got(i) => format!("{:?}", GOT_OPS[i as usize].0).to_lowercase(),
        f => format!("{f:?}"),
    };
    let mut out = Outcome {
        class: format!("{form_name}/{:?}/not_relaxed", c.enc),
        nontrivial: false,
        key: String::new(),
        failure: None,
        excluded: None,
    };
    let Some((bytes, start, len, field, r_type, addend)) = build(c) else {
        out.class = "unencodable".into();
        return out;
    };
    let orig = decode(&bytes[start..]);
    let tls = is_tls(c.form);
    // TLS symbols are never absolute/ifunc in this model; their value is a (negative) TP offset.
    let flags = if tls { c.flags & !5 } else { c.flags };
    let res = catch_unwind(AssertUnwindSafe(|| api::x86_64_relax(r_type, &bytes, field as u64, flags, c.output_kind, true, addend)));
    let fail = |out: &mut Outcome, kind: &str, msg: String| {
        out.failure = Some((
            format!("{form_name}:{kind}"),
            format!(
                "{form_name} {:?} w={} reg={} r_type={r_type} flags={flags:#x} output_kind={} S={:#x}: {msg} (section bytes {}, instruction at {start})",
                c.enc,
                c.w,
                c.reg,
                c.output_kind,
                c.value,
                hex(&bytes)
            ),
        ));
    };
    let relaxed = match res {
        Err(_) => {
            fail(&mut out, "panic", "new_relaxation/apply panicked".into());
            return out;
        }
        Ok(None) => return out,
        Ok(Some(r)) => r,
    };
    let mut nb = relaxed.bytes.clone();
    let noff = relaxed.offset as usize;
    let kind_name = relaxed.kind.split('(').next().unwrap_or("").to_string();
    out.class = format!("{form_name}/{:?}/{kind_name}", c.enc);
    // bytes outside the instruction / sequence untouched
    if nb.len() != bytes.len() || nb[..start] != bytes[..start] || nb[start + len..] != bytes[start + len..] {
        fail(&mut out, "outside-bytes", format!("bytes outside the instruction changed: {}", hex(&nb)));
        return out;
    }
    if nb[start..start + len] == bytes[start..start + len] && noff == field {
        // relocation type change only (NoOp)
        out.class = format!("{form_name}/{:?}/noop", c.enc);
    }
    // A symbol whose value is not known at link time (DYNAMIC), or an ifunc, must keep going
    // through the GOT: any rewrite to a direct form is wrong.
    let pie = matches!(c.output_kind, 1 | 3 | 4);
    let load_bias: u64 = if pie { 0x5555_0000_0000 } else { 0 };
    let absolute = flags & 1 != 0 && flags & 2 == 0;
    if !tls && (flags & 2 != 0 || flags & 4 != 0) && nb[start..start + len] != bytes[start..start + len] {
        fail(&mut out, "dynamic-or-ifunc-relaxed", format!("a symbol without a link-time value was relaxed ({}) to {}", relaxed.kind, hex(&nb[start..start + len])));
        return out;
    }
    // Apply the relocation wild chose, with wild's writer, for the generated symbol value.
    let place = c.base + relaxed.offset;
    let reloc_value = match relaxed.rel_info.kind {
        RelocationKind::Absolute | RelocationKind::TpOff => c.value.wrapping_add(relaxed.addend as u64),
        RelocationKind::Relative | RelocationKind::PltRelative => c.value.wrapping_add(relaxed.addend as u64).wrapping_sub(place),
        // GOT-relative kinds: the instruction still reads a GOT slot; the slot address is not modelled.
        _ => 0,
    };
    let direct = matches!(relaxed.rel_info.kind, RelocationKind::Absolute | RelocationKind::TpOff | RelocationKind::Relative | RelocationKind::PltRelative);
    let wrote = if direct && noff + 4 <= nb.len() {
        relaxed.rel_info.write_to_buffer(reloc_value, &mut nb[noff..]).is_ok()
    } else {
        false
    };
    let exp_runtime = |v: u64| if absolute || tls { v } else { v.wrapping_add(load_bias) };
    match c.form {
        Form::Got(_) | Form::Call | Form::Jmp | Form::IeMov | Form::IeAdd | Form::TlsDescLea => {
            let Some(o) = orig else {
                out.class = "undecodable_original".into();
                return out;
            };
            let Some(n) = decode(&nb[start..]) else {
                fail(&mut out, "undecodable", format!("rewritten bytes {} do not decode as an instruction of the documented mapping", hex(&nb[start..start + len])));
                return out;
            };
            // the rewritten instruction (+ padding) must fill exactly the original extent
            let pad_ok = match n.len.cmp(&o.len) {
                std::cmp::Ordering::Equal => true,
                std::cmp::Ordering::Less => nb[start + n.len..start + o.len].iter().all(|&x| x == 0x90),
                std::cmp::Ordering::Greater => false,
            };
            if !pad_ok {
                fail(&mut out, "length", format!("rewritten instruction {} has length {} (original {})", hex(&nb[start..start + len]), n.len, o.len));
                return out;
            }
            let want_op = match (o.op, n.src) {
                (Op::Mov, Src::RipAddr) => Op::Lea,
                // TLSDESC lea -> mov $tpoff / mov x@gottpoff(%rip)
                (Op::Lea, _) if c.form == Form::TlsDescLea => Op::Mov,
                (op, _) => op,
            };
            if n.op != want_op {
                fail(&mut out, "operation", format!("original {:?} became {:?}: {}", o.op, n.op, hex(&nb[start..start + len])));
                return out;
            }
            if !matches!(o.op, Op::Call | Op::Jmp) && (n.reg != o.reg || n.w != o.w) {
                fail(&mut out, "register-or-size", format!("original register {} (64-bit={}) became register {} (64-bit={}): {}", o.reg, o.w, n.reg, n.w, hex(&nb[start..start + len])));
                return out;
            }
            if n.src != Src::RipMem && start + n.field != noff {
                fail(&mut out, "field-offset", format!("relocation would be applied at {noff}, the immediate/displacement of {} is at {}", hex(&nb[start..start + len]), start + n.field));
                return out;
            }
            if n.src == Src::RipMem {
                // still a GOT load (e.g. TLSDESC -> IE): relocation must stay GOT-relative
                if direct {
                    fail(&mut out, "got-load-with-direct-reloc", format!("instruction still loads from memory but the relocation is {:?}", relaxed.rel_info.kind));
                }
                return out;
            }
            if !direct {
                fail(&mut out, "direct-operand-with-got-reloc", format!("rewritten to a direct operand but relocation kind is {:?}", relaxed.rel_info.kind));
                return out;
            }
            out.nontrivial = !(c.reg & 15 == 0 || c.reg & 15 == 7) || c.value >= 0x8000_0000;
            out.key = format!("{form_name}/{:?}/{}/{}/{}/{:x}/{}", c.enc, c.w, c.reg, flags, c.value, c.output_kind);
            if !wrote {
                out.class = format!("{form_name}/{:?}/{kind_name}/reloc_overflow", c.enc);
                return out;
            }
            let f = u32::from_le_bytes(nb[noff..noff + 4].try_into().unwrap());
            let end = c.base + (start + n.len) as u64;
            let got = match n.src {
                Src::Imm32 => {
                    if n.w {
                        sext32(f)
                    } else {
                        u64::from(f)
                    }
                }
                Src::RipAddr | Src::Rel32 => end.wrapping_add(load_bias).wrapping_add(sext32(f)),
                Src::RipMem => unreachable!(),
            };
            let mut want = exp_runtime(c.value);
            let mut got = got;
            if !n.w && n.src != Src::Rel32 {
                want &= 0xffff_ffff;
                got &= 0xffff_ffff;
            }
            if got != want {
                // Known finding: REX.W imm32 forms use the zero-extending R_X86_64_32.
                let known_sig = format!("{form_name}:rexw-imm32-zero-extended");
                let in_known_domain = n.src == Src::Imm32 && n.w && want == c.value && (0x8000_0000..=0xffff_ffff).contains(&c.value);
                // Known finding: call/jmp/mov through the GOT to an absolute symbol becomes PC-relative in
                // a position-independent output (the load bias then shifts the target).
                let abs_sig = format!("{form_name}:absolute-pcrel-in-pie");
                if matches!(n.src, Src::Rel32 | Src::RipAddr) && absolute && pie {
                    if !strict && opts.is_known(&abs_sig) {
                        out.excluded = Some(abs_sig);
                        return out;
                    }
                    fail(&mut out, "absolute-pcrel-in-pie", format!("reference to an absolute symbol rewritten to the PC-relative {} in a position-independent output: at load bias {load_bias:#x} it reaches {got:#x}, the GOT slot holds {want:#x}", hex(&nb[start..start + len])));
                    return out;
                }
                if in_known_domain {
                    if !strict && opts.is_known(&known_sig) {
                        out.excluded = Some(known_sig);
                        return out;
                    }
                    fail(&mut out, "rexw-imm32-zero-extended", format!("rewritten to {} with relocation range [{}, {}): the 64-bit instruction sign-extends imm32 and computes {got:#x}, the GOT slot would hold {want:#x}", hex(&nb[start..start + len]), relaxed.rel_info.range.min, relaxed.rel_info.range.max));
                } else {
                    fail(&mut out, "operand-value", format!("rewritten to {} ({}), which yields {got:#x} at run time (load bias {load_bias:#x}); the original loads {want:#x} from its GOT slot", hex(&nb[start..start + len]), relaxed.kind));
                }
            }
        }
        Form::TlsDescCall => {
            if nb[start..start + 2] != [0x66, 0x90] {
                fail(&mut out, "tls-template", format!("TLSDESC_CALL must become `xchg %ax,%ax` (66 90), got {}", hex(&nb[start..start + 2])));
            }
        }
        Form::GdRegular => {
            let le = relaxed.rel_info.kind == RelocationKind::TpOff;
            let want: &[u8] = if le {
                &[0x64, 0x48, 0x8b, 0x04, 0x25, 0, 0, 0, 0, 0x48, 0x8d, 0x80]
            } else {
                &[0x64, 0x48, 0x8b, 0x04, 0x25, 0, 0, 0, 0, 0x48, 0x03, 0x05]
            };
            if nb[start..start + 12] != *want || noff != start + 12 {
                fail(&mut out, "tls-template", format!("GD -> {} must be `mov %fs:0,%rax; {}` with the relocation at +12; got {} reloc at +{}", if le { "LE" } else { "IE" }, if le { "lea x@tpoff(%rax),%rax" } else { "add x@gottpoff(%rip),%rax" }, hex(&nb[start..start + 16]), noff - start));
                return out;
            }
            if le {
                if relaxed.addend != 0 {
                    fail(&mut out, "tls-addend", format!("GD -> LE leaves addend {}", relaxed.addend));
                } else if wrote {
                    let f = u32::from_le_bytes(nb[noff..noff + 4].try_into().unwrap());
                    if sext32(f) != c.value {
                        fail(&mut out, "operand-value", format!("lea imm32(%rax) adds {:#x}, TP offset is {:#x}", sext32(f), c.value));
                    }
                }
            } else if relaxed.addend != -4 {
                fail(&mut out, "tls-addend", format!("GD -> IE needs addend -4 (rip-relative, field ends the instruction), got {}", relaxed.addend));
            }
            out.nontrivial = true;
            out.key = format!("{form_name}/{le}/{}", c.output_kind);
        }
        Form::LdDirect | Form::LdNoPlt => {
            let want: &[u8] = if c.form == Form::LdDirect {
                &[0x66, 0x66, 0x66, 0x64, 0x48, 0x8b, 0x04, 0x25, 0, 0, 0, 0]
            } else {
                &[0x66, 0x66, 0x66, 0x66, 0x64, 0x48, 0x8b, 0x04, 0x25, 0, 0, 0, 0]
            };
            if nb[start..start + len] != *want {
                fail(&mut out, "tls-template", format!("LD -> LE must be (padding) `mov %fs:0,%rax` = {}; got {}", hex(want), hex(&nb[start..start + len])));
            }
            out.nontrivial = true;
            out.key = format!("{form_name}/{}", c.output_kind);
        }
    }
    out
}

fn to_json(c: &Case) -> Value {
    json!({
        "form": format!("{:?}", c.form), "enc": format!("{:?}", c.enc), "w": c.w, "reg": c.reg, "plain": c.plain,
        "pre": c.pre, "post": c.post, "disp": c.disp, "flags": c.flags, "output_kind": c.output_kind,
        "value": format!("{:#x}", c.value), "base": format!("{:#x}", c.base),
    })
}

fn from_json(j: &Value) -> Option<Case> {
    let f = j["form"].as_str()?;
    let form = if let Some(i) = f.strip_prefix("Got(") {
        Form::Got(i.trim_end_matches(')').parse().ok()?)
    } else {
        match f {
            "Call" => Form::Call,
            "Jmp" => Form::Jmp,
            "IeMov" => Form::IeMov,
            "IeAdd" => Form::IeAdd,
            "TlsDescLea" => Form::TlsDescLea,
            "TlsDescCall" => Form::TlsDescCall,
            "GdRegular" => Form::GdRegular,
            "LdDirect" => Form::LdDirect,
            "LdNoPlt" => Form::LdNoPlt,
            _ => return None,
        }
    };
    let enc = match j["enc"].as_str()? {
        "Legacy" => Enc::Legacy,
        "Rex" => Enc::Rex,
        _ => Enc::Rex2,
    };
    let bytes = |k: &str| -> Vec<u8> { j[k].as_array().map(|a| a.iter().map(|x| x.as_u64().unwrap_or(0) as u8).collect()).unwrap_or_default() };
    let hexu = |k: &str| u64::from_str_radix(j[k].as_str().unwrap_or("0x0").trim_start_matches("0x"), 16).unwrap_or(0);
    Some(Case {
        form,
        enc,
        w: j["w"].as_bool()?,
        reg: j["reg"].as_u64()? as u8,
        plain: j["plain"].as_bool().unwrap_or(false),
        pre: bytes("pre"),
        post: bytes("post"),
        disp: j["disp"].as_u64().unwrap_or(0) as u32,
        flags: j["flags"].as_u64()? as u16,
        output_kind: j["output_kind"].as_u64()? as u8,
        value: hexu("value"),
        base: hexu("base"),
    })
}

pub fn run(opts: &Opts) -> Value {
    std::panic::set_hook(Box::new(|_| {}));
    let mut stats = Stats::default();
    if let Some(j) = &opts.replay {
        let Some(c) = from_json(j) else {
            eprintln!("bad replay case");
            std::process::exit(3);
        };
        let o = check(&c, opts, true);
        if let Some((sig, msg)) = o.failure {
            stats.violation(&sig, msg, j.clone());
        }
        stats.evaluations = 1;
        return stats.to_json();
    }
    let handle = |o: Outcome, stats: &mut Stats| -> Option<(String, String)> {
        if let Some(sig) = &o.excluded {
            stats.count(&format!("excluded_known/{sig}"));
            return None;
        }
        if let Some(f) = o.failure {
            return Some(f);
        }
        stats.count(&o.class);
        stats.eval(o.nontrivial.then_some(o.key));
        None
    };
    // Phase 1: exhaustive form x encoding x W x 32 registers x value classes x symbol kinds x output
    // kinds (no neighbouring bytes), shard 0 only.
    let mut sweep = 0u64;
    if opts.shard == 0 {
        let forms: Vec<Form> = (0..10).map(Form::Got).chain([Form::Call, Form::Jmp, Form::IeMov, Form::IeAdd, Form::TlsDescLea, Form::TlsDescCall, Form::GdRegular, Form::LdDirect, Form::LdNoPlt]).collect();
        'outer: for &form in &forms {
            for enc in [Enc::Legacy, Enc::Rex, Enc::Rex2] {
                for w in [false, true] {
                    for reg in 0..32u8 {
                        for &value in &VALUES {
                            for flags in [8u16, 9, 0, 2, 12] {
                                for output_kind in 0..5u8 {
                                    let c = Case { form, enc, w, reg, plain: false, pre: vec![0x90, 0x90, 0x90, 0x90], post: vec![0xcc, 0xcc], disp: 0, flags, output_kind, value, base: 0x40_1000 };
                                    sweep += 1;
                                    let o = check(&c, opts, false);
                                    if let Some((sig, msg)) = handle(o, &mut stats) {
                                        stats.violation(&sig, msg, to_json(&c));
                                        break 'outer;
                                    }
                                }
                            }
                        }
                    }
                }
            }
        }
    }
    stats.extra.insert("sweep_cases".into(), json!(sweep));
    if !stats.violations.is_empty() {
        return stats.to_json();
    }
    // Phase 2: random prefixes / neighbouring bytes / values, with shrinking.
    let mut r = runner(opts.seed, opts.cases);
    let result = {
        let stats = std::cell::RefCell::new(&mut stats);
        r.run(&case_strategy(), |c| {
            let mut s = stats.borrow_mut();
            let o = check(&c, opts, false);
            if s.samples.len() < 3 && o.failure.is_none() && o.nontrivial {
                s.sample(to_json(&c));
            }
            match handle(o, &mut s) {
                None => Ok(()),
                Some((sig, msg)) => {
                    s.frozen = true;
                    Err(TestCaseError::fail(format!("{sig}\u{1}{msg}")))
                }
            }
        })
    };
    if let Err(TestError::Fail(reason, c)) = result {
        let text = reason.message().to_string();
        let (sig, msg) = text.split_once('\u{1}').unwrap_or(("unknown", &text));
        stats.violation(sig, msg.to_string(), to_json(&c));
    }
    let excluded: u64 = stats.classes.iter().filter(|(k, _)| k.starts_with("excluded_known/")).map(|(_, n)| *n).sum();
    stats.extra.insert("excluded_known_total".into(), json!(excluded));
    stats.to_json()
}
