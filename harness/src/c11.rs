//! C11 (kernel tier, in-process) — thunk block placement (`thunks::assign_thunk_blocks` through
//! `libwild::verif::api::assign_thunk_blocks`).
//!
//! Input (objects smaller than R): contiguous `(start, end)` object ranges in address order (what `collect_primary_ranges`
//! produces: `start[i+1] == end[i]`, empty objects filtered out) and `max_branch_range` R.
//! Reference model of the module comment: a thunk block sits at its owner's end; objects of a block
//! that follow the owner were accepted because their end is within R of the block; objects that
//! precede the owner were accepted while the span from the first of them stayed below R, so the
//! block (owner's end) is less than R + owner size from their start.  Required:
//!  * every object is assigned (exactly one final assignment) to an existing block id;
//!  * block ids are non-decreasing in address order and every id in 0..n is used (numbered in
//!    address order, no gaps);
//!  * every block has exactly one owner, block 0 is owned by the first object;
//!  * reach: for o after its owner: o.end - pos < R; for o before its owner:
//!    pos - o.start < R + owner.size (pos = owner.end);
//!  * no unnecessary block: a new block is only started by an object whose end is >= R beyond the
//!    previous block's position.
use crate::util::Opts;
use crate::util::Stats;
use crate::util::runner;
use libwild::verif::api;
use proptest::prelude::*;
use proptest::test_runner::TestCaseError;
use proptest::test_runner::TestError;
use serde_json::Value;
use serde_json::json;
use std::panic::AssertUnwindSafe;
use std::panic::catch_unwind;

#[derive(Clone, Debug)]
struct Case {
    first_start: u64,
    sizes: Vec<u64>,
    range: u64,
}

fn objects(c: &Case) -> Vec<(u64, u64)> {
    let mut out = Vec::with_capacity(c.sizes.len());
    let mut at = c.first_start;
    for &s in &c.sizes {
        out.push((at, at + s));
        at += s;
    }
    out
}

fn case_strategy() -> impl Strategy<Value = Case> {
    let size = prop_oneof![
        4 => 1u64..64,
        3 => 64u64..4096,
        2 => (12u32..27).prop_map(|k| 1u64 << k),
        1 => 1u64..(4 << 20),
    ];
    (
        prop_oneof![Just(0u64), 0u64..(1 << 20), Just(1u64 << 40)],
        prop::collection::vec(size, 1..60),
        // How R is chosen: exact sum of a window of sizes +-1 (boundary), or random.
        (0u8..6, any::<u16>(), any::<u16>(), -1i64..=1, 1u64..(1 << 28)),
    )
        .prop_map(|(first_start, sizes, (mode, a, b, d, raw))| {
            let n = sizes.len();
            let max = *sizes.iter().max().unwrap();
            let range = if mode < 4 && n >= 2 {
                // a window of 2..=7 objects: many blocks, spans that hit R exactly (+-1)
                let i = (usize::from(a) * (n - 1)) >> 16;
                let len = 2 + ((usize::from(b) * 6) >> 16);
                let sum: u64 = sizes[i..(i + len).min(n)].iter().sum();
                ((sum as i64 + d).max(1) as u64).max(if mode < 3 { max + 1 } else { 1 })
            } else if mode == 4 {
                raw.max(max + 1)
            } else {
                raw
            };
            Case { first_start, sizes, range }
        })
}

struct Outcome {
    class: String,
    nontrivial: bool,
    failure: Option<(String, String)>,
}

fn check(c: &Case) -> Outcome {
    let objs = objects(c);
    let r = c.range;
    let mut out = Outcome { class: String::new(), nontrivial: false, failure: None };
    let res = catch_unwind(AssertUnwindSafe(|| api::assign_thunk_blocks(&objs, r)));
    let (n, asg) = match res {
        Ok(x) => x,
        Err(_) => {
            out.failure = Some(("kernel:panic".into(), format!("assign_thunk_blocks panicked on sizes={:?} R={r}", c.sizes)));
            return out;
        }
    };
    let mut fail = |kind: &str, msg: String| {
        if out.failure.is_none() {
            out.failure = Some((format!("kernel:{kind}"), format!("{msg}; objects (start,end)={objs:?} R={r} -> blocks={n} assignment(block,owner)={asg:?}")));
        }
    };
    if objs.is_empty() {
        return out;
    }
    // An object at least as large as the range cannot be served by any placement (a branch inside it
    // may be out of reach of both neighbouring blocks): outside the kernel's domain, not judged.
    if c.sizes.iter().any(|&s| s >= r) {
        out.class = "object_ge_range_not_judged".into();
        return out;
    }
    // assigned, valid ids
    for (i, &(b, _)) in asg.iter().enumerate() {
        if b == u32::MAX || b as usize >= n {
            fail("unassigned", format!("object {i} has no valid block (id {b}, {n} blocks)"));
            return out;
        }
    }
    // address order, no gaps
    for i in 1..asg.len() {
        if asg[i].0 < asg[i - 1].0 || asg[i].0 > asg[i - 1].0 + 1 {
            fail("order", format!("block ids are not numbered in address order at object {i} ({} after {})", asg[i].0, asg[i - 1].0));
            return out;
        }
    }
    if asg[0].0 != 0 || asg.last().unwrap().0 as usize != n - 1 {
        fail("order", format!("block ids do not cover 0..{n}"));
        return out;
    }
    // one owner per block
    let mut owner = vec![usize::MAX; n];
    for (i, &(b, is_owner)) in asg.iter().enumerate() {
        if is_owner {
            if owner[b as usize] != usize::MAX {
                fail("owner", format!("block {b} has two owners ({} and {i})", owner[b as usize]));
                return out;
            }
            owner[b as usize] = i;
        }
    }
    if let Some(b) = owner.iter().position(|&o| o == usize::MAX) {
        fail("owner", format!("block {b} has no owner"));
        return out;
    }
    if owner[0] != 0 {
        fail("owner", format!("block 0 is owned by object {}, not by the first object", owner[0]));
        return out;
    }
    // reach
    for (i, &(b, _)) in asg.iter().enumerate() {
        let ow = owner[b as usize];
        let pos = objs[ow].1;
        let (s, e) = objs[i];
        if i > ow {
            if e - pos >= r {
                fail("reach-after", format!("object {i} ends {} bytes after its block {b} at {pos:#x} (owner {ow}); limit {r}", e - pos));
                return out;
            }
        } else if i < ow {
            let owner_size = objs[ow].1 - objs[ow].0;
            if pos - s >= r + owner_size {
                fail("reach-before", format!("object {i} starts {} bytes before its block {b} at {pos:#x} (owner {ow}, size {owner_size}); limit R + owner size = {}", pos - s, r + owner_size));
                return out;
            }
        }
    }
    // no unnecessary block: the first object of block b+1 must end >= R after block b's position
    for b in 1..n {
        let first = asg.iter().position(|&(x, _)| x as usize == b).unwrap();
        let prev_pos = objs[owner[b - 1]].1;
        // Only meaningful when the previous block's owner precedes this object (always the case).
        if objs[first].1.saturating_sub(prev_pos) < r {
            fail("needless-block", format!("block {b} starts at object {first} although its end is only {} past block {} (R={r})", objs[first].1 - prev_pos, b - 1));
            return out;
        }
    }
    let exact = {
        // some cumulative span equals R +-1: boundary case
        let mut hit = false;
        for i in 0..objs.len() {
            for j in i..objs.len() {
                let span = objs[j].1 - objs[i].0;
                let span2 = objs[j].1 - objs[i].1;
                if span.abs_diff(r) <= 1 || span2.abs_diff(r) <= 1 {
                    hit = true;
                }
            }
        }
        hit
    };
    out.nontrivial = n >= 2;
    out.class = format!("blocks_{}/{}", n.min(5), if exact { "boundary" } else { "interior" });
    out
}

fn to_json(c: &Case) -> Value {
    json!({"first_start": c.first_start.to_string(), "sizes": c.sizes, "range": c.range.to_string()})
}

fn from_json(j: &Value) -> Option<Case> {
    Some(Case {
        first_start: j["first_start"].as_str()?.parse().ok()?,
        sizes: j["sizes"].as_array()?.iter().map(|x| x.as_u64().unwrap_or(1)).collect(),
        range: j["range"].as_str()?.parse().ok()?,
    })
}

pub fn run(opts: &Opts) -> Value {
    std::panic::set_hook(Box::new(|_| {}));
    let mut stats = Stats::default();
    if let Some(j) = &opts.replay {
        let Some(c) = from_json(j) else {
            eprintln!("bad replay case");
            std::process::exit(3);
        };
        if let Some((sig, msg)) = check(&c).failure {
            stats.violation(&sig, msg, j.clone());
        }
        stats.evaluations = 1;
        return stats.to_json();
    }
    // Phase 1 (shard 0): exhaustive small universe: up to 6 objects with sizes in 1..=4, every R in 1..=14.
    let mut small = 0u64;
    if opts.shard == 0 {
        'outer: for n in 1..=6usize {
            let mut sizes = vec![1u64; n];
            loop {
                for range in 1..=14u64 {
                    let c = Case { first_start: 0, sizes: sizes.clone(), range };
                    small += 1;
                    let o = check(&c);
                    if let Some((sig, msg)) = o.failure {
                        stats.violation(&sig, msg, to_json(&c));
                        break 'outer;
                    }
                    stats.count(&o.class);
                    stats.eval(o.nontrivial.then(|| format!("{:?}/{}", c.sizes, c.range)));
                }
                // next size vector
                let mut k = 0;
                while k < n {
                    sizes[k] += 1;
                    if sizes[k] <= 4 {
                        break;
                    }
                    sizes[k] = 1;
                    k += 1;
                }
                if k == n {
                    break;
                }
            }
        }
    }
    stats.extra.insert("exhaustive_small_cases".into(), json!(small));
    if !stats.violations.is_empty() {
        return stats.to_json();
    }
    let mut r = runner(opts.seed, opts.cases);
    let result = {
        let stats = std::cell::RefCell::new(&mut stats);
        r.run(&case_strategy(), |c| {
            let mut s = stats.borrow_mut();
            let o = check(&c);
            match o.failure {
                None => {
                    s.count(&o.class);
                    s.eval(o.nontrivial.then(|| format!("{:?}/{}", c.sizes, c.range)));
                    if s.samples.len() < 2 && o.nontrivial {
                        s.sample(to_json(&c));
                    }
                    Ok(())
                }
                Some((sig, msg)) => {
                    s.frozen = true;
                    Err(TestCaseError::fail(format!("{sig}\u{1}{msg}")))
                }
            }
        })
    };
    if let Err(TestError::Fail(reason, c)) = result {
        let text = reason.message().to_string();
        let (sig, msg) = text.split_once('\u{1}').unwrap_or(("unknown", &text));
        stats.violation(sig, msg.to_string(), to_json(&c));
    }
    stats.to_json()
}
