use proptest::test_runner::Config;
use proptest::test_runner::RngAlgorithm;
use proptest::test_runner::RngSeed;
use proptest::test_runner::TestRng;
use proptest::test_runner::TestRunner;
use serde_json::Value;
use serde_json::json;
use std::collections::BTreeMap;

pub struct Opts {
    pub seed: u64,
    pub cases: u64,
    pub replay: Option<Value>,
    pub thorough: bool,
    pub shard: u64,
    pub shards: u64,
    /// Signatures of known findings (status known): their exact domain is excluded by construction.
    pub known: Vec<String>,
}

impl Opts {
    /// True iff `sig` is listed as a known finding (exact match, or prefix match for entries ending in `*`).
    pub fn is_known(&self, sig: &str) -> bool {
        self.known.iter().any(|k| match k.strip_suffix('*') {
            Some(p) => sig.starts_with(p),
            None => k == sig,
        })
    }

    pub fn parse(args: &[String]) -> Opts {
        let mut o = Opts {
            seed: 1,
            cases: 10000,
            replay: None,
            thorough: false,
            shard: 0,
            shards: 1,
            known: Vec::new(),
        };
        let mut i = 0;
        while i < args.len() {
            match args[i].as_str() {
                "--seed" => {
                    o.seed = args[i + 1].parse().unwrap();
                    i += 1;
                }
                "--cases" => {
                    o.cases = args[i + 1].parse().unwrap();
                    i += 1;
                }
                "--replay" => {
                    o.replay = Some(serde_json::from_str(&args[i + 1]).unwrap());
                    i += 1;
                }
                "--thorough" => o.thorough = true,
                "--shard" => {
                    o.shard = args[i + 1].parse().unwrap();
                    i += 1;
                }
                "--shards" => {
                    o.shards = args[i + 1].parse().unwrap();
                    i += 1;
                }
                "--known" => {
                    o.known.push(args[i + 1].clone());
                    i += 1;
                }
                _ => {}
            }
            i += 1;
        }
        o
    }
}

/// A proptest runner with a fixed seed and no persistence.
pub fn runner(seed: u64, cases: u64) -> TestRunner {
    let mut bytes = [0u8; 32];
    bytes[..8].copy_from_slice(&seed.to_le_bytes());
    bytes[8..16].copy_from_slice(&seed.wrapping_mul(0x9e37_79b9_7f4a_7c15).to_le_bytes());
    let _ = RngSeed::Fixed(seed);
    let config = Config {
        cases: cases as u32,
        failure_persistence: None,
        max_shrink_iters: 100_000,
        ..Config::default()
    };
    TestRunner::new_with_rng(config, TestRng::from_seed(RngAlgorithm::ChaCha, &bytes))
}

/// Bookkeeping shared by all in-process checks.
#[derive(Default)]
pub struct Stats {
    pub evaluations: u64,
    /// Distinct non-trivial cases are counted conservatively: each key is hashed into a bitset and
    /// the number of set bits is reported (collisions can only lower the count).
    pub nontrivial_bits: Vec<u64>,
    pub nontrivial_count: u64,
    pub classes: BTreeMap<String, u64>,
    pub samples: Vec<Value>,
    pub violations: Vec<Value>,
    pub extra: BTreeMap<String, Value>,
    pub frozen: bool,
}

impl Stats {
    pub fn count(&mut self, class: &str) {
        if !self.frozen {
            *self.classes.entry(class.to_owned()).or_default() += 1;
        }
    }

    pub fn eval(&mut self, nontrivial_key: Option<String>) {
        if self.frozen {
            return;
        }
        self.evaluations += 1;
        if let Some(k) = nontrivial_key {
            if self.nontrivial_bits.is_empty() {
                self.nontrivial_bits = vec![0u64; 1 << 21];
            }
            use std::hash::Hash as _;
            use std::hash::Hasher as _;
            let mut h = std::collections::hash_map::DefaultHasher::new();
            k.hash(&mut h);
            let bit = h.finish() as usize % (self.nontrivial_bits.len() * 64);
            let (w, b) = (bit / 64, bit % 64);
            if self.nontrivial_bits[w] & (1 << b) == 0 {
                self.nontrivial_bits[w] |= 1 << b;
                self.nontrivial_count += 1;
            }
        }
    }

    pub fn sample(&mut self, v: Value) {
        if !self.frozen && self.samples.len() < 8 {
            self.samples.push(v);
        }
    }

    pub fn violation(&mut self, signature: &str, message: String, case: Value) {
        self.violations
            .push(json!({"signature": signature, "message": message, "case": case}));
    }

    pub fn to_json(&self) -> Value {
        json!({
            "evaluations": self.evaluations,
            "distinct_nontrivial": self.nontrivial_count,
            "classes": self.classes,
            "samples": self.samples,
            "violations": self.violations,
            "extra": self.extra,
        })
    }
}
