#!/bin/bash
# MANIFEST.setup_cmd: offline build of everything the checks need (hooks-on wild, in-process harness).
set -e
here="$(cd "$(dirname "${BASH_SOURCE[0]}")" && pwd)"
export CARGO_NET_OFFLINE=true PYTHONDONTWRITEBYTECODE=1
cd "$here"
python3-vt - <<'PY'
import sys
sys.path.insert(0, ".")
from vlib import core
core.build_wild()
import os
if os.path.exists("harness/Cargo.toml.in"):
    core.build_harness()
print("setup ok")
PY
